"""DIP text generator pieces and an independent reference for paths / literal values (C13, reused by C14-C17).

A program is a list of line dicts (JSON-able). Kinds used here:
  {"k":"group","indent":i,"name":n,"comment":c}
  {"k":"def","indent":i,"name":n,"type":T,"dim":dimtext|None,"val":V,"unit":u|None,"comment":c}
  {"k":"blank"} / {"k":"comment","indent":i,"text":t}
T = type keyword (bool int int16 ... float128 str table)
V = {"form":"scalar","text":literal,"py":value}            scalar written as `text`
    {"form":"none"}
    {"form":"array","style":"tight"|"loose"|"block","py":nested list,"texts":nested list of element texts}
    {"form":"blockstr","lines":[...]}                       str block
    {"form":"table","cols":[{"name","type","unit","cells":[{"text","py"}]}]}
The reference computes the expected ordered {path: (value, unit, typeinfo)} with an explicit indentation stack.
"""
import json

from hypothesis import strategies as st

INT_TYPES = {"int": (False, 32), "int16": (False, 16), "int32": (False, 32), "int64": (False, 64),
             "uint16": (True, 16), "uint32": (True, 32), "uint64": (True, 64)}
FLOAT_TYPES = {"float": 64, "float32": 32, "float64": 64, "float128": 128}
UNITS = [None, None, "m", "cm", "kg", "s", "km/s", "J", "kg*m2/s2", "W/m2", "K", "mm", "g/cm3"]
NAME_ALPHA = "abcdefghijklmnopqrstuvwxyzABCXYZ0123456789_-"


# --------------------------------------------------------------------------- literals

def int_range(t):
    unsigned, bits = INT_TYPES[t]
    return (0, 2 ** bits - 1) if unsigned else (-2 ** (bits - 1), 2 ** (bits - 1) - 1)


@st.composite
def int_literal(draw, t, array=False):
    lo, hi = int_range(t)
    if array:
        lo, hi = max(lo, -2 ** 63), min(hi, 2 ** 63 - 1)   # numpy casts array literals through int64
    n = draw(st.one_of(st.integers(lo, hi), st.integers(max(lo, -50), min(hi, 50)), st.sampled_from([lo, hi, 0])))
    return {"text": str(n), "py": n}


FLOAT_TEXTS = ["10", "23.3", ".5", "2.3e20", "-1.5E-3", "0", "-0.25", "1e3", "6.02214076e23", "3.", "-7", "1E-7", "0.1",
               "12345.678", "9.109383e-28"]
FLOAT_JSON = [t for t in FLOAT_TEXTS if not t.startswith(".") and not t.endswith(".")]


@st.composite
def float_literal(draw, json_only=False):
    t = draw(st.sampled_from(FLOAT_JSON if json_only else FLOAT_TEXTS))
    if draw(st.integers(0, 3)) == 0:
        m = draw(st.integers(-99999, 99999))
        e = draw(st.integers(-30, 30))
        t = f"{m / 1000}e{e}" if draw(st.booleans()) else repr(m / 1000)
    return {"text": t, "py": float(t)}


WORDS = ["bare", "John", "x1", "a-b", "v2.5", "true", "none_", "ABC", "k_2", "0", "semi;colon", "a,b", "p:q",
         "None", "True", "FALSE", "NONE"]        # a string is the text written: only lower-case none/true/false are keywords
PHRASES = ["New York", "two  blanks", "with # hash", "it's", 'say "hi"', "trailing ", " leading", "a=b", "x y z", "[1, 2]",
           "form\x0cfeed", "line\u2028sep", "v\x0bt", "\\\\server\\share x", "row \\\\ end", "re \\\\d+ x"]


@st.composite
def str_literal(draw):
    style = draw(st.sampled_from(["bare", "sq", "dq"]))
    if style == "bare":
        w = draw(st.sampled_from(WORDS))
        return {"text": w, "py": w, "style": style}
    s = draw(st.one_of(st.sampled_from(PHRASES), st.sampled_from(WORDS)))
    q = "'" if style == "sq" else '"'
    # only the own quote character needs escaping; both escapes are legal everywhere
    body = s.replace(q, "\\" + q)
    return {"text": q + body + q, "py": s, "style": style}


def scalar_literal(t):
    if t == "bool":
        return st.sampled_from([{"text": "true", "py": True}, {"text": "false", "py": False}])
    if t in INT_TYPES:
        return int_literal(t)
    if t in FLOAT_TYPES:
        return float_literal()
    return str_literal()


@st.composite
def array_value(draw, t):
    rank = draw(st.sampled_from([1, 1, 2, 2, 3]))
    shape = [draw(st.integers(1, 3)) for _ in range(rank)]
    style = draw(st.sampled_from(["tight", "tight", "loose", "block"]))

    def elem():
        if t == "bool":
            return draw(scalar_literal("bool"))
        if t in INT_TYPES:
            return draw(int_literal(t, array=True))
        if t in FLOAT_TYPES:
            return draw(float_literal(json_only=True))
        w = draw(st.sampled_from(WORDS if style == "tight" else WORDS + ["New York", "x y"]))
        return {"text": json.dumps(w), "py": w}

    def build(dims):
        if len(dims) == 1:
            return [elem() for _ in range(dims[0])]
        return [build(dims[1:]) for _ in range(dims[0])]
    cells = build(shape)

    def split(x, key):
        return [split(y, key) for y in x] if isinstance(x, list) else x[key]
    dims = []
    for n in shape:
        dims.append(draw(st.sampled_from([str(n), str(n), ":", f"{n}:", f":{n}", f"{max(0, n - 1)}:{n + 1}"])))
    return {"form": "array", "style": style, "py": split(cells, "py"), "texts": split(cells, "text"), "dim": ",".join(dims),
            "shape": shape}


@st.composite
def table_value(draw):
    ncol = draw(st.integers(1, 4))
    nrow = draw(st.integers(1, 3))
    cols = []
    for c in range(ncol):
        t = draw(st.sampled_from(["int", "float", "str", "bool", "int", "float"]))
        unit = draw(st.sampled_from(UNITS)) if t in ("int", "float") else None
        cells = []
        for _ in range(nrow):
            if t == "str":
                if draw(st.integers(0, 3)) == 0:
                    w = draw(st.sampled_from(["John Smith", "a b", "x  y"]))
                    cells.append({"text": '"' + w + '"', "py": w})
                else:
                    # bare cells are taken literally: a backslash, an apostrophe or a dollar sign is just a character
                    w = draw(st.sampled_from(["aa", "bb", "John", "x1", "k_2", "1.10", "1e3", "true", "null",
                                              "C:\\data\\run1.log", "O'Brien", "$\\alpha$", "it's", "a\\b", "\\\\srv\\x"]))
                    cells.append({"text": w, "py": w})
            elif t == "int":
                cells.append(draw(int_literal("int")))
            elif t == "float":
                cells.append(draw(float_literal()))
            else:
                cells.append(draw(scalar_literal("bool")))
        cols.append({"name": f"c{c}" + draw(st.sampled_from(["", "x", "_t"])), "type": t, "unit": unit, "cells": cells})
    # blank lines (or lines of blanks) between the rows do not belong to the table
    gaps = draw(st.lists(st.sampled_from([0, 0, 0, 0, 1, 2, "ws"]), min_size=nrow, max_size=nrow))
    return {"form": "table", "cols": cols, "gaps": gaps}


@st.composite
def typed_value(draw, allow_table=True):
    """-> (type keyword, value spec, unit)"""
    kinds = ["scalar"] * 8 + ["none", "array", "array", "array", "blockstr"] + (["table"] if allow_table else [])
    k = draw(st.sampled_from(kinds))
    if k == "table":
        return "table", draw(table_value()), None
    if k == "blockstr":
        lines = draw(st.lists(st.sampled_from(["Lorem ipsum dolor", "  indented line", "x = 3 # not a comment", "", "last",
                                               "#!/bin/sh", "  # a body line that starts with a hash", "#alpha 1",
                                               # characters str.splitlines() would split at: only the newline ends a line
                                               "Chapter 1\x0cChapter 2", "a\x0bb", "x\x1cy\x1dz", "u\x85v", "p\u2028q",
                                               "cr\rinside", "trailing blanks   ", "   ", "two \\\\ backslashes",
                                               "\\\\server\\share"]),
                              min_size=1, max_size=4))
        if lines[0] == "" or lines[-1] == "":
            lines = ["first"] + lines + ["end"]
        return "str", {"form": "blockstr", "lines": lines}, None
    t = draw(st.sampled_from(["bool", "int", "float", "str", "int", "float"] + list(INT_TYPES) + list(FLOAT_TYPES)))
    unit = draw(st.sampled_from(UNITS)) if (t in INT_TYPES or t in FLOAT_TYPES) else None
    if k == "none":
        # 'depth float = none cm': the node has no value but keeps its unit
        return t, {"form": "none"}, (unit if draw(st.booleans()) else None)
    if k == "array":
        return t, draw(array_value(t)), unit
    lit = draw(scalar_literal(t))
    if t == "str" and draw(st.integers(0, 11)) == 0:
        lit = {"text": draw(st.sampled_from(['""', "''"])), "py": ""}      # the empty string is a value
    return t, {"form": "scalar", "text": lit["text"], "py": lit["py"]}, unit


# --------------------------------------------------------------------------- names and trees

@st.composite
def seg(draw):
    return draw(st.text(alphabet=NAME_ALPHA, min_size=1, max_size=5))


COMMENTS = [None, None, None, "comment", "with = and [brackets]", "units: m/s", "#double", " spaced  ",
            'a """ mark', 'see the """docstring""" above']      # triple quotes in a comment open nothing


@st.composite
def tree_program(draw, max_nodes=12, ragged=False, value_strategy=None, allow_table=True):
    """A list of lines forming a tree. Every name segment carries a unique counter, so all paths are distinct."""
    counter = [0]
    lines = []
    budget = [draw(st.integers(1, max_nodes))]

    def name():
        nseg = draw(st.sampled_from([1, 1, 1, 2, 3]))
        parts = []
        for _ in range(nseg):
            counter[0] += 1
            parts.append(draw(seg()) + str(counter[0]))
        return ".".join(parts)

    def emit(indent, depth, parent_path=None):
        while budget[0] > 0:
            budget[0] -= 1
            is_group = draw(st.integers(0, 3)) == 0
            nm = name()
            if parent_path and draw(st.integers(0, 5)) == 0:
                nm = parent_path + "." + nm      # a child may legally repeat its parent's path: it is still a child
            if is_group:
                line = {"k": "group", "indent": indent, "name": nm, "comment": draw(st.sampled_from(COMMENTS))}
                can_child = True
            else:
                t, v, u = draw(value_strategy) if value_strategy is not None else draw(typed_value(allow_table))
                line = {"k": "def", "indent": indent, "name": nm, "type": t, "dim": v.get("dim"), "val": v, "unit": u,
                        "comment": draw(st.sampled_from(COMMENTS))}
                can_child = v["form"] != "table"
            lines.append(line)
            if draw(st.integers(0, 4)) == 0:
                lines.append({"k": "blank"} if draw(st.booleans()) else
                             {"k": "comment", "indent": draw(st.integers(0, 8)), "text": draw(st.sampled_from(COMMENTS[3:]))})
            if can_child and depth < 4 and budget[0] > 0 and draw(st.integers(0, 2)) == 0:
                emit(indent + draw(st.integers(1, 4)), depth + 1, (parent_path + "." if parent_path else "") + nm)
            if depth > 0 and draw(st.integers(0, 2)) == 0:
                return
    emit(draw(st.sampled_from([0, 0, 0, 2])), 0)
    if ragged:
        # arbitrary indents: the literal parent rule decides (tables keep their followers at or left of themselves)
        prev_table = None
        for ln in lines:
            if ln["k"] in ("group", "def"):
                ln["indent"] = draw(st.integers(0, 9))
                if prev_table is not None and ln["indent"] > prev_table:
                    ln["indent"] = prev_table
                prev_table = ln["indent"] if (ln["k"] == "def" and ln["val"]["form"] == "table") else None
    return lines


# --------------------------------------------------------------------------- rendering

def _json_tight(texts):
    if isinstance(texts, list):
        return "[" + ",".join(_json_tight(t) for t in texts) + "]"
    return texts


def _json_loose(texts):
    if isinstance(texts, list):
        return "[" + ", ".join(_json_loose(t) for t in texts) + "]"
    return texts


def render_value(t, v):
    """-> list of text lines for the value part (first element continues the definition line)"""
    f = v["form"]
    if f == "none":
        return ["none"]
    if f == "scalar":
        return [v["text"]]
    if f == "array":
        if v["style"] == "tight":
            return [_json_tight(v["texts"])]
        if v["style"] == "loose":
            return ["'" + _json_loose(v["texts"]) + "'"]
        rows = v["texts"]
        if len(v["shape"]) == 1:
            body = [_json_loose(rows)]
        else:
            body = []
            for i, r in enumerate(rows):
                body.append(("[" if i == 0 else " ") + _json_loose(r) + ("," if i < len(rows) - 1 else "]"))
        return ['"""'] + body + ['"""']
    if f == "blockstr":
        return ['"""'] + list(v["lines"]) + ['"""']
    if f == "table":
        head = []
        for c in v["cols"]:
            head.append(f"{c['name']} {c['type']}" + (f" {c['unit']}" if c["unit"] else ""))
        nrow = len(v["cols"][0]["cells"])
        rows = []
        for r in range(nrow):
            rows.append(" ".join(c["cells"][r]["text"] for c in v["cols"]))
            g = (v.get("gaps") or [0] * nrow)[r]
            if r < nrow - 1:
                rows += ["   "] if g == "ws" else [""] * g
        return ['"""'] + head + [""] + rows + ['"""']
    raise AssertionError(f)


def render_line(ln, indent_scale=1):
    k = ln["k"]
    if k == "blank":
        return [""]
    if k == "comment":
        return [" " * (ln["indent"] * indent_scale) + "# " + ln["text"]]
    ind = " " * (ln["indent"] * indent_scale)
    com = f"   # {ln['comment']}" if ln.get("comment") else ""
    if k == "group":
        return [ind + ln["name"] + com]
    if k == "def":
        head = f"{ind}{ln['name']} {ln['type']}" + (f"[{ln['dim']}]" if ln.get("dim") else "")
        vl = render_value(ln["type"], ln["val"])
        unit = f" {ln['unit']}" if ln.get("unit") else ""
        quoted = vl[0][:1] in "'\"" or len(vl) > 1
        if quoted and com and ("'" in com or '"' in com):
            com = "   # note"
        if len(vl) == 1:
            return [f"{head} = {vl[0]}{unit}{com}"]
        return [f"{head} = {vl[0]}"] + vl[1:-1] + [vl[-1] + unit + com]
    raise AssertionError(k)


def render(lines, strip_decor=False, indent_scale=1):
    out = []
    for ln in lines:
        if strip_decor and ln["k"] in ("blank", "comment"):
            continue
        if strip_decor:
            ln = dict(ln, comment=None)
        out += render_line(ln, indent_scale)
    return "\n".join(out)


# --------------------------------------------------------------------------- reference

def typeinfo(t):
    if t == "bool":
        return ("BooleanType", None, None)
    if t in INT_TYPES:
        return ("IntegerType", INT_TYPES[t][1], INT_TYPES[t][0])
    if t in FLOAT_TYPES:
        return ("FloatType", FLOAT_TYPES[t], None)
    return ("StringType", None, None)


def expected(lines):
    """-> list of (path, value, unit, typeinfo) in order of first appearance"""
    out = []
    stack = []   # (indent, full path)
    for ln in lines:
        if ln["k"] not in ("group", "def"):
            continue
        while stack and ln["indent"] <= stack[-1][0]:
            stack.pop()
        path = (stack[-1][1] + "." if stack else "") + ln["name"]
        if ln["k"] == "group":
            stack.append((ln["indent"], path))
            continue
        v = ln["val"]
        if v["form"] == "table":
            for c in v["cols"]:
                out.append((path + "." + c["name"], [cell["py"] for cell in c["cells"]], c["unit"], typeinfo(c["type"])))
            # the table line itself is not a parent; its columns sit at its indentation
            stack.append((ln["indent"], path + "." + v["cols"][-1]["name"]))
            continue
        stack.append((ln["indent"], path))
        if v["form"] == "none":
            val = None
        elif v["form"] == "blockstr":
            val = "\n".join(v["lines"])
        else:
            val = v["py"]
        out.append((path, val, ln.get("unit"), typeinfo(ln["type"])))
    return out


def values_equal(a, b):
    """exact comparison of python values (nested lists, ints, floats, bools, strings, None)"""
    if isinstance(a, (list, tuple)) or isinstance(b, (list, tuple)):
        if not isinstance(a, (list, tuple)) or not isinstance(b, (list, tuple)) or len(a) != len(b):
            return False
        return all(values_equal(x, y) for x, y in zip(a, b))
    if isinstance(a, bool) or isinstance(b, bool):
        return isinstance(a, bool) and isinstance(b, bool) and a == b
    if a is None or b is None:
        return a is None and b is None
    if isinstance(a, str) or isinstance(b, str):
        return isinstance(a, str) and isinstance(b, str) and a == b
    return a == b


def to_py(x):
    import numpy as np
    if isinstance(x, np.ndarray):
        return x.tolist()
    if isinstance(x, np.generic):
        return x.item()
    if isinstance(x, (list, tuple)):
        return [to_py(y) for y in x]
    return x
