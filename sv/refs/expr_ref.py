"""Stratified-grammar AST for the default solver operator table: generator, renderer, reference evaluator.

AST (JSON-able lists):
  ["num", "2.25"]
  ["par", e]                      ( e )
  ["f1", name, e]                 name in log log10 exp sqrt sin cos tan
  ["f2", name, e1, e2]            name in logb pow
  ["una", "+-", prim]             sign chain (string of + and -), applied before **
  ["chain", level, first, [[op, operand], ...]]   level in pow mul add cmp and or; applied left to right
  ["not", e]                      ! e       (e is a cmp-level expression)
The evaluator follows the documented step table level by level and never looks at the solver.
"""
import math

import numpy as np
from hypothesis import strategies as st

F1 = ["log", "log10", "exp", "sqrt", "sin", "cos", "tan"]
F2 = ["logb", "pow"]
LEVEL_OPS = {
    "pow": ["**"], "mul": ["*", "/"], "add": ["+", "-"],
    "cmp": ["==", "!=", "<=", ">=", "<", ">"], "and": ["&&"], "or": ["||"],
}
STEP_OF = {"**": "pow", "*": "mul", "/": "mul", "+": "add", "-": "add", "==": "cmp", "!=": "cmp", "<=": "cmp",
           ">=": "cmp", "<": "cmp", ">": "cmp", "&&": "and", "||": "or", "!": "not"}
NUMBERS = ["1", "2", "3", "4", "5", "7", "10", "16", "23", "2.25", ".5", "1e3", "0.1", "3.", "12.5", "1e1", "100"]
SMALL_EXP = ["2", "3", "2", "1", "0", "3", "2", "4", ".5"]


# --------------------------------------------------------------------------- generator

def _count(draw, weights=(6, 3, 1)):
    return draw(st.sampled_from([i for i, w in enumerate(weights) for _ in range(w)]))


@st.composite
def expr(draw, depth=3, top="or"):
    order = ["or", "and", "not", "cmp", "add", "mul", "pow", "una", "prim"]

    def gen(level, d):
        if level == "prim":
            kinds = ["num"] * 15 + ["zero"]
            if d > 0:
                kinds += ["par", "par", "f1", "f1", "f2"]
            k = draw(st.sampled_from(kinds))
            if k == "num":
                return ["num", draw(st.sampled_from(NUMBERS))]
            if k == "zero":
                return ["num", "0"]
            inner_top = draw(st.sampled_from(["add", "add", "add", "or", "cmp"]))
            if k == "par":
                return ["par", gen(inner_top, d - 1)]
            if k == "f1":
                return ["f1", draw(st.sampled_from(F1)), gen(draw(st.sampled_from(["add", "add", "mul", "or"])), d - 1)]
            return ["f2", draw(st.sampled_from(F2)), gen("add", d - 1), gen("add", d - 1)]
        if level == "una":
            p = gen("prim", d)
            n = _count(draw, (7, 2, 1))
            if n == 0:
                return p
            return ["una", "".join(draw(st.sampled_from("+-")) for _ in range(n)), p]
        if level == "not":
            e = gen("cmp", d)
            if draw(st.integers(0, 4)) == 0:
                return ["not", e]
            return e
        nxt = order[order.index(level) + 1]
        first = gen(nxt, d)
        weights = {"or": (10, 2, 1), "and": (10, 2, 1), "cmp": (8, 3, 1), "add": (5, 4, 1), "mul": (6, 3, 1), "pow": (8, 2, 1)}[level]
        n = _count(draw, weights)
        if n == 0:
            return first
        rest = [[draw(st.sampled_from(LEVEL_OPS[level])), gen(nxt, d)] for _ in range(n)]
        if level == "mul":
            for r in rest:       # a literal zero divisor only produces discarded cases
                if r[0] == "/" and r[1] == ["num", "0"]:
                    r[1] = ["num", "4"]
        if level == "pow":
            # keep exponents small so that most cases stay inside the float range (generator soundness, not the oracle)
            for r in rest:
                x = r[1]
                tgt = x[2] if x[0] == "una" else x
                if tgt[0] == "num":
                    tgt[1] = draw(st.sampled_from(SMALL_EXP))
        return ["chain", level, first, rest]

    return gen(top, depth)


# --------------------------------------------------------------------------- tokens and rendering
# a token is (text, tag): tag in num, open, fn (e.g. "sin("), close, comma, bin, sign, not

def tokens(t):
    k = t[0]
    if k == "num":
        return [(t[1], "num")]
    if k == "par":
        return [("(", "open")] + tokens(t[1]) + [(")", "close")]
    if k == "f1":
        return [(t[1] + "(", "fn")] + tokens(t[2]) + [(")", "close")]
    if k == "f2":
        return [(t[1] + "(", "fn")] + tokens(t[2]) + [(",", "comma")] + tokens(t[3]) + [(")", "close")]
    if k == "una":
        return [(s, "sign") for s in t[1]] + tokens(t[2])
    if k == "not":
        return [("!", "not")] + tokens(t[1])
    if k == "empty":
        return []
    out = tokens(t[2])
    for op, operand in t[3]:
        out += [(op, "bin")] + tokens(operand)
    return out


def render(toks, blanks=None):
    """blanks: list of ints (number of blanks before token i, and one trailing) or None for tight."""
    out = []
    for i, (text, _tag) in enumerate(toks):
        if blanks:
            out.append(" " * blanks[i % len(blanks)])
        out.append(text)
    if blanks:
        out.append(" " * blanks[len(toks) % len(blanks)])
    return "".join(out)


# --------------------------------------------------------------------------- reference evaluator

class Domain(Exception):
    pass


def _apply(op, a, b):
    if op == "**":
        r = a ** b
        if isinstance(r, complex):
            raise Domain("complex")
        return r
    if op == "*":
        return a * b
    if op == "/":
        return a / b
    if op == "+":
        return a + b
    if op == "-":
        return a - b
    if op == "==":
        return a == b
    if op == "!=":
        return a != b
    if op == "<=":
        return a <= b
    if op == ">=":
        return a >= b
    if op == "<":
        return a < b
    if op == ">":
        return a > b
    if op == "&&":
        return a and b
    if op == "||":
        return a or b
    raise AssertionError(op)


def evaluate(t):
    """Value by the documented step table; raises Domain for arithmetic domain errors."""
    try:
        return _ev(t)
    except (ZeroDivisionError, OverflowError, ValueError, TypeError) as e:
        raise Domain(repr(e))


def _ev(t):
    k = t[0]
    if k == "num":
        return float(t[1])
    if k == "par":
        return _ev(t[1])
    if k == "f1":
        x = _ev(t[2])
        n = t[1]
        if isinstance(x, (bool, np.bool_)):
            x = float(x)      # a truth value used as a number is 1 or 0 (numpy would compute sin(True) in half precision)
        if n == "exp":
            return np.e ** x
        return {"log": np.log, "log10": np.log10, "sqrt": np.sqrt, "sin": np.sin, "cos": np.cos, "tan": np.tan}[n](x)
    if k == "f2":
        a, b = _ev(t[2]), _ev(t[3])
        if t[1] == "logb":
            return np.log(a) / np.log(b)
        r = a ** b
        if isinstance(r, complex):
            raise Domain("complex")
        return r
    if k == "una":
        x = _ev(t[2])
        for s in reversed(t[1]):
            if s == "-":
                x = -x
        return x
    if k == "not":
        return not bool(_ev(t[1]))
    acc = _ev(t[2])
    for op, operand in t[3]:
        acc = _apply(op, acc, _ev(operand))
    return acc


def sign_pairs_on_boolean(t):
    """True if some sign chain with an even, non-zero number of '-' stands in front of a boolean-valued operand.
    The step table says that the signs are applied; it does not say whether two signs that cancel leave the truth value
    (identity, as a single '+' does) or its number 0/1 (Python's -(-False)): the value is the same, only its class is not
    determined, so the caller compares such cases by value alone."""
    k = t[0]
    if k == "num":
        return False
    if k == "una":
        n = sum(1 for s in t[1] if s == "-")
        if n and n % 2 == 0:
            try:
                if isinstance(_ev(t[2]), (bool, np.bool_)):
                    return True
            except Exception:
                return False
        return sign_pairs_on_boolean(t[2])
    if k in ("par", "not"):
        return sign_pairs_on_boolean(t[1])
    if k == "f1":
        return sign_pairs_on_boolean(t[2])
    if k == "f2":
        return sign_pairs_on_boolean(t[2]) or sign_pairs_on_boolean(t[3])
    return sign_pairs_on_boolean(t[2]) or any(sign_pairs_on_boolean(o) for _op, o in t[3])


# --------------------------------------------------------------------------- classification helpers

def stats(t, acc=None, fdepth=0):
    """-> dict(ops=[(op, step)], sign_pow=bool, chained_cmp=bool, fn_depth=int, depth=int)"""
    if acc is None:
        acc = {"ops": [], "sign_pow": False, "chained_cmp": False, "fn_depth": 0, "nodes": 0}
    acc["nodes"] += 1
    k = t[0]
    if k == "num":
        return acc
    if k in ("par",):
        stats(t[1], acc, fdepth)
    elif k == "f1":
        acc["ops"].append((t[1], "args"))
        acc["fn_depth"] = max(acc["fn_depth"], fdepth + 1)
        stats(t[2], acc, fdepth + 1)
    elif k == "f2":
        acc["ops"].append((t[1], "args"))
        acc["fn_depth"] = max(acc["fn_depth"], fdepth + 1)
        stats(t[2], acc, fdepth + 1)
        stats(t[3], acc, fdepth + 1)
    elif k == "una":
        acc["ops"].append(("sign", "unary"))
        stats(t[2], acc, fdepth)
    elif k == "not":
        acc["ops"].append(("!", "not"))
        stats(t[1], acc, fdepth)
    elif k == "chain":
        for op, operand in t[3]:
            acc["ops"].append((op, t[1]))
        if t[1] == "cmp" and len(t[3]) >= 2:
            acc["chained_cmp"] = True
        if t[1] == "pow" and any(x[0] == "una" for x in [t[2]] + [o for _, o in t[3]]):
            acc["sign_pow"] = True
        stats(t[2], acc, fdepth)
        for _op, operand in t[3]:
            stats(operand, acc, fdepth)
    return acc


def has_sign_chain_before_pow_after_binary(t):
    """Shape of the historical defect: a binary +/- whose right operand is a pow-chain (or a mul chain starting with a
    pow chain) whose first base carries a unary sign."""
    found = [False]

    def first_una_in_pow(x):
        # descend through mul chain -> pow chain -> first operand
        while x[0] == "chain" and x[1] in ("mul",):
            x = x[2]
        return x[0] == "chain" and x[1] == "pow" and x[2][0] == "una"

    def walk(x):
        k = x[0]
        if k == "chain":
            if x[1] == "add":
                for _op, operand in x[3]:
                    if first_una_in_pow(operand):
                        found[0] = True
            walk(x[2])
            for _op, operand in x[3]:
                walk(operand)
        elif k in ("par", "not"):
            walk(x[1])
        elif k == "f1":
            walk(x[2])
        elif k == "f2":
            walk(x[2])
            walk(x[3])
        elif k == "una":
            walk(x[2])
    walk(t)
    return found[0]
