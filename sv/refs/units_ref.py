"""Independent reference for unit expressions.

Built from a snapshot of the published tables (UNIT_PREFIXES, UNIT_STANDARD, QUANTITY_UNITS) taken at import.
It never calls AtomParser / UnitSolver / BaseUnits: atoms are recognised by dictionary lookup, factors are
Python floats from the tables, dimensions are exact fractions.Fraction vectors.
"""
import math
from fractions import Fraction as F

from scinumtools.units import settings as _S

NDIM = 8


def _dimvec(lst):
    out = []
    for x in lst:
        if isinstance(x, tuple):
            out.append(F(int(x[0]), int(x[1])))
        else:
            out.append(F(x))
    return tuple(out)


def snapshot():
    """Deep, comparable snapshot of the three process-wide tables."""
    units = [(k, (u.magnitude, repr(u.dimensions), u.definition if isinstance(u.definition, (str, type(None))) else u.definition.__name__,
                  u.name, repr(u.prefixes))) for k, u in _S.UNIT_STANDARD.items()]
    prefixes = [(k, (p.magnitude, repr(p.dimensions), p.definition, p.name)) for k, p in _S.UNIT_PREFIXES.items()]
    types = [t.__name__ for t in _S.UNIT_TYPES]
    return {"units": units, "unit_keys": list(_S.UNIT_STANDARD.keys()), "prefixes": prefixes,
            "prefix_keys": list(_S.UNIT_PREFIXES.keys()), "types": types}


PRISTINE = snapshot()
_PRISTINE_ROWS = {k: _S.UNIT_STANDARD[k] for k in _S.UNIT_STANDARD.keys()}
_PRISTINE_KEYS = list(_S.UNIT_STANDARD.keys())
_PRISTINE_TYPES = list(_S.UNIT_TYPES)


def restore_tables():
    """Put the global tables back to the import-time state (harness hygiene after a leak was recorded)."""
    us = _S.UNIT_STANDARD
    us._keys[:] = list(_PRISTINE_KEYS)
    us._data.clear()
    for k in _PRISTINE_KEYS:
        us._data[k] = _PRISTINE_ROWS[k]
    _S.UNIT_TYPES[:] = list(_PRISTINE_TYPES)


def tables_pristine():
    return snapshot() == PRISTINE


PREFIX = {k: float(p.magnitude) for k, p in _S.UNIT_PREFIXES.items()}
PREFIX_ORDER = list(PREFIX)


class U:
    __slots__ = ("sym", "mag", "dim", "kind", "prefixes")

    def __init__(self, sym, mag, dim, kind, prefixes):
        self.sym, self.mag, self.dim, self.kind, self.prefixes = sym, mag, dim, kind, prefixes


UNITS = {}
for _k, _u in _S.UNIT_STANDARD.items():
    _d = _u.definition
    _kind = "lin" if (_d is None or isinstance(_d, str)) else ("temp" if _d.__name__.startswith("Temp") else "log")
    if _u.prefixes is True:
        _pf = list(PREFIX_ORDER)
    elif isinstance(_u.prefixes, list):
        _pf = list(_u.prefixes)
    else:
        _pf = []
    UNITS[_k] = U(_k, float(_u.magnitude), _dimvec(_u.dimensions), _kind, _pf)
SYSUNITS = {k: U(k, float(v[0]), _dimvec(v[1]), "lin", []) for k, v in _S.QUANTITY_UNITS.items()}

# ---- atom dictionary: text -> list of (prefix, symbol) readings
ATOMS = {}
for _s, _u in UNITS.items():
    ATOMS.setdefault(_s, []).append(("", _s))
    for _p in _u.prefixes:
        ATOMS.setdefault(_p + _s, []).append((_p, _s))
AMBIGUOUS = {t: r for t, r in ATOMS.items() if len(r) > 1}
ATOM = {t: r[0] for t, r in ATOMS.items() if len(r) == 1}
for _s in SYSUNITS:
    ATOM[_s] = ("", _s)


def unit_of(sym):
    return UNITS[sym] if sym in UNITS else SYSUNITS[sym]


def atom_factor(prefix, sym):
    return (PREFIX[prefix] if prefix else 1.0) * unit_of(sym).mag


def atom_dim(sym):
    return unit_of(sym).dim


ZERO = tuple(F(0) for _ in range(NDIM))


def dim_add(a, b, k=1):
    return tuple(x + k * y for x, y in zip(a, b))


def dim_mul(a, k):
    return tuple(x * k for x in a)


# ---- unit-expression AST (JSON-able):
#   ["u", prefix, symbol, num, den, style]   style: "" | "+"  (explicit plus sign on the exponent)
#   ["n", "2.5"]                            numeric factor
#   ["*", a, b] / ["/", a, b] / ["(", a]

def render(t):
    k = t[0]
    if k == "u":
        _, p, s, n, d, style = t
        if n == 1 and d == 1 and not style:
            e = ""
        else:
            e = (style if n > 0 else "") + (str(n) if d == 1 else f"{n}:{d}")
        return f"{p}{s}{e}"
    if k == "n":
        return t[1]
    if k == "(":
        return "(" + render(t[1]) + ")"
    right = render(t[2])
    if t[2][0] in ("*", "/"):      # * and / share one step, applied left to right: keep the tree's grouping
        right = "(" + right + ")"
    return render(t[1]) + k + right


class Ref:
    """Result of the reference evaluation."""
    __slots__ = ("unit_factor", "num_factor", "dim", "atoms", "log10", "overflow")


def evaluate(t):
    """-> (unit_factor, numeric_factor, dim, {(prefix,sym): exponent}, max |log10| seen)"""
    k = t[0]
    if k == "u":
        _, p, s, n, d, _style = t
        e = F(n, d)
        f = atom_factor(p, s)
        val = f ** (n / d)
        lg = abs(math.log10(f) * (n / d)) if f > 0 else 0.0
        return val, 1.0, dim_mul(atom_dim(s), e), {(p, s): e}, lg
    if k == "n":
        x = float(t[1])
        return 1.0, x, ZERO, {}, abs(math.log10(abs(x))) if x else 400.0
    if k == "(":
        return evaluate(t[1])
    a = evaluate(t[1])
    b = evaluate(t[2])
    sgn = 1 if k == "*" else -1
    atoms = dict(a[3])
    for key, e in b[3].items():
        atoms[key] = atoms.get(key, F(0)) + sgn * e
    if sgn == 1:
        uf, nf = a[0] * b[0], a[1] * b[1]
    else:
        uf, nf = a[0] / b[0], a[1] / b[1]
    lg = max(a[4], b[4], abs(math.log10(uf)) if uf > 0 and math.isfinite(uf) else 400.0,
             abs(math.log10(abs(nf))) if nf and math.isfinite(nf) else 400.0)
    return uf, nf, dim_add(a[2], b[2], sgn), atoms, lg


def count_terms(t):
    if t[0] in ("u", "n"):
        return 1
    if t[0] == "(":
        return count_terms(t[1])
    return count_terms(t[1]) + count_terms(t[2])


def leaves(t):
    if t[0] in ("u", "n"):
        return [t]
    if t[0] == "(":
        return leaves(t[1])
    return leaves(t[1]) + leaves(t[2])


def lib_dims(dimensions):
    """Library Dimensions -> tuple of Fractions."""
    out = []
    for x in dimensions.value():
        out.append(F(int(x[0]), int(x[1])) if isinstance(x, tuple) else F(int(x)))
    return tuple(out)


def lib_atoms(baseunits_dict):
    """Library BaseUnits.baseunits -> {(prefix, sym): Fraction} (zero exponents dropped)."""
    out = {}
    for uid, e in baseunits_dict.items():
        if ":" in uid and not uid.startswith("#"):
            p, s = uid.split(":")
        else:
            p, s = "", uid
        fr = F(int(e.num), int(e.den))
        if fr != 0:
            out[(p, s)] = fr
    return out


def parse_simple_expression(expr):
    """Parse the library's rendered unit string 'kg*m2*s-2' (product of atoms with exponents) with the dictionary.
    Returns {(prefix,sym): Fraction} or raises ValueError."""
    out = {}
    if expr is None:
        return out
    import re
    for part in expr.split("*"):
        m = re.search(r"(?<=[^0-9:+-])[0-9:+-]+$", part)
        if m:
            etxt = m.group()
            text = part[:-len(etxt)]
            if ":" in etxt:
                a, b = etxt.split(":")
                e = F(int(a), int(b))
            else:
                e = F(int(etxt))
        else:
            text, e = part, F(1)
        if text not in ATOM:
            raise ValueError(f"unknown atom {text!r} in {expr!r}")
        out[ATOM[text]] = out.get(ATOM[text], F(0)) + e
    return out


def factor_of_expression(expr):
    f = 1.0
    for (p, s), e in parse_simple_expression(expr).items():
        f *= atom_factor(p, s) ** float(e)
    return f


def dim_of_expression(expr):
    d = ZERO
    for (p, s), e in parse_simple_expression(expr).items():
        d = dim_add(d, dim_mul(atom_dim(s), e))
    return d


# ---- pools used by several properties
def linear_atoms():
    """All admissible (prefix, symbol) atoms of linear (non-temperature, non-logarithmic) table units."""
    out = []
    for s, u in UNITS.items():
        if u.kind != "lin":
            continue
        out.append(("", s))
        for p in u.prefixes:
            out.append((p, s))
    return out


def by_dimension(atoms=None):
    groups = {}
    for p, s in (atoms or linear_atoms()):
        groups.setdefault(atom_dim(s), []).append((p, s))
    return groups


def factor_of_expression_text(text):
    """Factor of a parenthesis-free expression 'kg*m/s2' (left to right)."""
    import re
    f = 1.0
    sign = 1
    for tok in re.split(r"([*/])", text):
        if tok == "*":
            sign = 1
        elif tok == "/":
            sign = -1
        else:
            x = factor_of_expression(tok)
            f = f * x if sign == 1 else f / x
    return f


def atoms_of_expression_text(text):
    """{(prefix,sym): exponent} (zero exponents dropped) of a parenthesis-free expression 'kg*m/s2'."""
    import re
    out = {}
    sign = 1
    for tok in re.split(r"([*/])", text):
        if tok == "*":
            sign = 1
        elif tok == "/":
            sign = -1
        else:
            for k, e in parse_simple_expression(tok).items():
                out[k] = out.get(k, F(0)) + sign * e
    return {k: e for k, e in out.items() if e != 0}
