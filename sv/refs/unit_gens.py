"""Hypothesis strategies for unit expressions of a prescribed dimension (shared by C04, C06, C07, C08)."""
from fractions import Fraction as F

from hypothesis import strategies as st

from . import units_ref as R

LIN = R.linear_atoms()
# constants such as [c] are legal units but make expressions hard to read; keep them at low weight
LIN_PLAIN = [a for a in LIN if not a[1].startswith("[")]
GROUPS = R.by_dimension(LIN)
GROUPS_PLAIN = R.by_dimension(LIN_PLAIN)
DIMS = sorted(GROUPS_PLAIN, key=lambda d: [float(x) for x in d])
NONZERO_DIMS = [d for d in DIMS if any(x != 0 for x in d)]
BASE = ["m", "g", "s", "K", "C", "cd", "mol", "rad"]
NODIM_FACTOR = [a for a in GROUPS[R.ZERO] if a[1] in ("%", "ppth", "[pi]", "[alpha]", "[euler]")]
RAD_DIM = tuple(F(1) if i == 7 else F(0) for i in range(8))


def atom(p, s, n=1, d=1):
    return ["u", p, s, n, d, ""]


def neg(d):
    return tuple(-x for x in d)


@st.composite
def base_expansion(draw, dim):
    """Product of prefixed base units with the exponents of `dim` (e.g. kg*mm2/us2)."""
    t = None
    idx = [i for i in range(8) if dim[i] != 0]
    idx = draw(st.permutations(idx))
    for i in idx:
        b = BASE[i]
        p = draw(st.sampled_from([""] + R.UNITS[b].prefixes))
        e = dim[i]
        use_div = t is not None and e < 0 and draw(st.booleans())
        ee = -e if use_div else e
        leaf = atom(p, b, ee.numerator, ee.denominator)
        if t is None:
            t = leaf
        else:
            t = ["/" if use_div else "*", t, leaf]
    return t


@st.composite
def expr_of_dim(draw, dim, allow_compound=True):
    """A unit-expression AST whose total dimension is `dim`."""
    group = GROUPS.get(dim, [])
    plain = GROUPS_PLAIN.get(dim, [])
    choices = []
    if plain:
        choices += ["atom", "atom"]
    if group and len(group) != len(plain):
        choices += ["const"]
    if allow_compound:
        if any(x != 0 for x in dim):
            choices += ["base"]
        if plain:
            choices += ["ratio"]
    if not choices:
        choices = ["base"]
    c = draw(st.sampled_from(choices))
    if c == "atom":
        return atom(*draw(st.sampled_from(plain)))
    if c == "const":
        return atom(*draw(st.sampled_from([a for a in group if a[1].startswith("[")])))
    if c == "base":
        return draw(base_expansion(dim))
    a = atom(*draw(st.sampled_from(plain)))
    if draw(st.integers(0, 2)) == 0:
        # a dimensionless unit that carries a factor (%, ppth, [pi], PR ...) next to dimensional ones
        return ["*", atom(*draw(st.sampled_from(NODIM_FACTOR))), a] if draw(st.booleans()) else \
               ["*", a, atom(*draw(st.sampled_from(NODIM_FACTOR)))]
    d2 = draw(st.sampled_from(NONZERO_DIMS))
    x = atom(*draw(st.sampled_from(GROUPS_PLAIN[d2])))
    y = atom(*draw(st.sampled_from(GROUPS_PLAIN[d2])))
    return ["/", ["*", a, x], y]


small_frac = st.sampled_from([(1, 1), (2, 1), (-1, 1), (1, 2), (3, 2), (-1, 2), (1, 3), (2, 3), (1, 4), (3, 1), (-2, 1), (5, 2)])


@st.composite
def shared_atoms_pair(draw):
    """Two unit expressions over the SAME atoms with different (fractional) exponents, e.g. km1:2*s and km*s-3:2."""
    n = draw(st.integers(1, 2))
    atoms = draw(st.lists(st.sampled_from(LIN_PLAIN), min_size=n, max_size=n, unique=True))

    def build():
        t = None
        for (p, s) in atoms:
            e = draw(small_frac)
            leaf = atom(p, s, e[0], e[1])
            t = leaf if t is None else ["*", t, leaf]
        return t
    u, v = build(), build()
    if draw(st.integers(0, 2)) == 0:
        v = ["*", v, atom(*draw(st.sampled_from(LIN_PLAIN)))]
    return u, v


def finite_floats(lo_exp=-250, hi_exp=250):
    """0, small integers, and sign*mantissa*10**e with e in [lo_exp, hi_exp] (never subnormal)"""
    mant = st.one_of(st.floats(1.0, 10.0, exclude_max=True), st.sampled_from([1.0, 2.0, 2.5, 9.999999999999998]))
    scaled = st.builds(lambda sg, m, e: sg * m * 10.0 ** e, st.sampled_from([1.0, -1.0]), mant,
                       st.one_of(st.integers(lo_exp, hi_exp), st.integers(max(lo_exp, -6), min(hi_exp, 6))))
    return st.one_of(
        st.sampled_from([0.0, 1.0, -1.0, 2.0, 0.5, -3.25, 1e-7, 12345.678]),
        scaled, scaled,
        st.integers(-1000, 1000).map(float),
    )


def magnitudes(scalar_only=False, **kw):
    f = finite_floats(**kw)
    if scalar_only:
        return f
    return st.one_of(f, f, st.lists(f, min_size=1, max_size=4))
