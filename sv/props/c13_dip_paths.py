"""C13 — DIP node paths follow indentation and values are the literals written."""
import itertools

from hypothesis import strategies as st

from ..core import Verdict
from ..refs import dip_ref as D
from ..refs import units_ref as R

ID = "C13"
RULE = (
    'DIP texts made of group lines and typed definitions arranged in generated trees (per-parent child '
    'indentation width 1-4, so widths vary between subtrees; a separate low-weight class with arbitrary ragged '
    'indents), names over [A-Za-z0-9_-] with 1-3 dotted segments, interleaved blank and comment lines, trailing '
    'comments. Values: bool, (u)int16/32/64 at and inside the width limits, floats in every documented notation, '
    "bare / single- / double-quoted strings with blanks, '#' and escaped quotes, none, 1-3-D arrays in tight, "
    'quoted-loose and block form, block strings, tables with int/float/str/bool columns and units. Oracle: an '
    'explicit indentation-stack reference gives the ordered path -> (value, unit, type class, precision, sign); '
    'compared with env.data(TUPLE) incl. key order and env.data(TYPE). Metamorphic: dropping blank/comment lines '
    'and scaling every indent by a constant gives the same result. Non-trivial: depth >= 3 with a de-indent of >= '
    '2 levels, or a dotted name below a parent, or an array/table/block value below a parent. Also: the program '
    'cut at a top-level line into A and B - one parser object fed A, parsed, fed B, parsed again (first result = '
    'A before and after, second = B, and two parsers on one shared empty Environment). Later rounds: the same '
    "text through add_file; doubled backslashes in strings, cells and blocks; hash-led and '#!' block lines; "
    'capitalised look-alikes of none / true. Rounds 7-8: none with a unit; the empty string; files that begin '
    'with a blank line; quote characters in trailing comments (strategy quoted_comment; known finding C13-K1). '
    'Round 9: triple quotes inside comments; blank lines and lines of blanks between the rows of a table. '
    'Round 10: the second text of a two-round / shared-base history stands further to the right as a whole. Distinct = distinct rendered text.'
)
ASSUMPTIONS = [
    "no node has children below a table (the table line is replaced by its columns)",
    "comments after a quoted value contain no quote characters (the value pattern is greedy)",
    "array literals stay inside the int64 range (they are cast through numpy)",
]
NT_FLOOR = 0.25
# coverage-guided complement (sv/fuzz.py): strategy -> number of cases
FUZZ = {"thorough": {"tree": 15000}}

_uid = itertools.count()


@st.composite
def program(draw, max_nodes, ragged):
    return {"lines": draw(D.tree_program(max_nodes=max_nodes, ragged=ragged)), "scale": draw(st.integers(2, 3)),
            "ragged": ragged}


@st.composite
def quoted_comment_case(draw):
    """a quoted string followed by a trailing comment that contains a quote character (the comment must not matter)"""
    q = draw(st.sampled_from(["'", '"']))
    cq = draw(st.sampled_from(["'", '"']))
    value = draw(st.sampled_from(["front", "New York", "a b", "x"]))
    comment = draw(st.sampled_from([f"the panel called {cq}front{cq}", f"see {cq}manual{cq} for details", f"unit {cq}cm{cq}"]))
    return {"qc": True, "q": q, "cq": cq, "value": value, "comment": comment, "indent": draw(st.integers(0, 2))}


def strategies(tier):
    n = 10 if tier == "quick" else 18
    return {"tree": (program(n, False), 2500, 60000), "ragged": (program(n, True), 500, 10000),
            "quoted_comment": (quoted_comment_case(), 60, 600)}


def _known_quote_in_comment(case, kind, detail):
    # C13-K1: a quoted value extends to the LAST quote character of the line, also when that one stands in the trailing
    # comment (the leniency towards unescaped inner quotes is pinned by the repository's own test_strings)
    return bool(case.get("qc")) and case["q"] == case["cq"]


KNOWN = {"C13-K1": _known_quote_in_comment}


def parse(text):
    from scinumtools.dip import DIP, Format
    with DIP(name=f"c13_{next(_uid)}") as p:
        p.add_string(text)
        env = p.parse()
    return env.data(Format.TUPLE), env.data(Format.TYPE)


def compare(v, text, exp, tup, typ):
    keys = list(tup.keys())
    want = [e[0] for e in exp]
    if keys != want:
        extra = [k for k in keys if k not in want]
        missing = [k for k in want if k not in keys]
        return v.fail("paths", f"paths {keys} != expected {want} (extra {extra}, missing {missing}) for text:\n{text}")
    for path, val, unit, (cls, prec, uns) in exp:
        got = tup[path]
        if unit is not None:
            if not (isinstance(got, tuple) and len(got) == 2):
                return v.fail("unit", f"{path}: expected a (value, {unit!r}) tuple, got {got!r} in:\n{text}")
            gv, gu = got
            if gu != unit:
                return v.fail("unit", f"{path}: unit {gu!r} != {unit!r} in:\n{text}")
        else:
            if isinstance(got, tuple):
                return v.fail("unit", f"{path}: unexpected unit in {got!r} in:\n{text}")
            gv = got
        gv = D.to_py(gv)
        if not D.values_equal(gv, val):
            return v.fail("value", f"{path}: value {gv!r} != literal {val!r} in:\n{text}")
        tobj = typ[path]
        if type(tobj).__name__ != cls:
            return v.fail("type", f"{path}: type {type(tobj).__name__} != {cls} in:\n{text}")
        if prec is not None and int(tobj.precision) != prec:
            return v.fail("type", f"{path}: precision {tobj.precision} != {prec} in:\n{text}")
        if uns is not None and bool(tobj.unsigned) != uns:
            return v.fail("type", f"{path}: unsigned {tobj.unsigned} != {uns} in:\n{text}")
    return None


def _from_file(v, text, exp):
    import os
    import shutil
    import tempfile
    from scinumtools.dip import DIP, Format
    tmp = tempfile.mkdtemp(prefix="svc13_")
    try:
        path = os.path.join(tmp, "input.dip")
        # blank lines do not change the result: the file may begin with one (or with a line of blanks)
        lead = ["", "\n", "   \n\n"][len(text) % 3]
        if lead:
            v.label("file_begins_with_a_blank_line")
        with open(path, "w", newline="") as f:
            f.write(lead + text)
        try:
            with DIP(name=f"c13_{next(_uid)}") as p:
                p.add_file(path)
                env = p.parse()
            tup, typ = env.data(Format.TUPLE), env.data(Format.TYPE)
        except Exception as e:
            return v.fail("parse-raised", f"add_file() of the same text raised {e!r}:\n{text}")
        if compare(v, "[read with add_file]\n" + text, exp, tup, typ) is not None:
            return True
    finally:
        shutil.rmtree(tmp, ignore_errors=True)
    v.label("same_text_from_file")
    return None


def _rounds(case, v, lines, exp):
    from scinumtools.dip import DIP, Environment, Format
    cuts = [i for i, ln in enumerate(lines) if i > 0 and ln["k"] in ("group", "def") and ln["indent"] == 0]
    if not cuts or lines[0].get("indent", 0) != 0:
        return None
    i = cuts[len(cuts) // 2]
    a, b = lines[:i], lines[i:]
    ta, tb = D.render(a), D.render(b)
    ea, eb = D.expected(a), D.expected(b)
    if '"""' not in tb and len(ta) % 3:
        # the second text as a whole stands further to the right (a text pasted from an indented listing): its lines are
        # placed relative to each other only, not to whatever the text before it left open
        sh = " " * (3 * (len(ta) % 3))
        tb = "\n".join(sh + ln if ln.strip() else ln for ln in tb.split("\n"))
        v.label("second_text_shifted_to_the_right")
    try:
        with DIP(name=f"c13_{next(_uid)}") as p:
            p.add_string(ta)
            r1 = p.parse()
            first = (r1.data(Format.TUPLE), r1.data(Format.TYPE))
            p.add_string(tb)
            r2 = p.parse()
            second = (r2.data(Format.TUPLE), r2.data(Format.TYPE))
            again = (r1.data(Format.TUPLE), r1.data(Format.TYPE))
    except Exception as e:
        return v.fail("parse-raised", f"one parser, add_string(A); parse(); add_string(B); parse() raised {e!r}\nA:\n{ta}\nB:\n{tb}")
    for what, (tup, typ), want, txt in (("first parse", first, ea, ta), ("second parse (B only: parse() consumes the lines it was given)", second, eb, tb),
                                        ("first result read again after the second parse", again, ea, ta)):
        if want and compare(v, f"[{what} of one parser object]\n" + txt, want, tup, typ) is not None:
            return True
        if not want and tup:
            return v.fail("paths", f"[{what}] expected no parameters, got {list(tup)}")
    try:
        base = Environment()
        res = []
        for t in (ta, tb):
            with DIP(base, name=f"c13_{next(_uid)}") as p:
                p.add_string(t)
                e = p.parse()
            res.append((e.data(Format.TUPLE), e.data(Format.TYPE)))
        left = base.data(Format.TUPLE)
    except Exception as e:
        return v.fail("parse-raised", f"two parsers on one empty base Environment raised {e!r}\nA:\n{ta}\nB:\n{tb}")
    if left:
        return v.fail("paths", f"the empty base Environment holds {list(left)} after two parsers used it")
    for (tup, typ), want, txt in ((res[0], ea, ta), (res[1], eb, tb)):
        if want and compare(v, "[parser on a shared empty base Environment]\n" + txt, want, tup, typ) is not None:
            return True
        if not want and tup:
            return v.fail("paths", f"[shared empty base] expected no parameters, got {list(tup)}")
    v.label("two_rounds")
    return None


def check(case):
    v = Verdict()
    try:
        _check(case, v)
    finally:
        if not R.tables_pristine():
            R.restore_tables()
    return v


def _check_quoted_comment(case, v):
    q, val = case["q"], case["value"]
    text = " " * case["indent"] + f"name str = {q}{val}{q}   # {case['comment']}\nafter int = 1"
    v.info = {"text": text}
    v.nt(True)
    v.label("quote_character_in_trailing_comment", "same_quote" if case["q"] == case["cq"] else "other_quote")
    try:
        tup, _typ = parse(text)
    except Exception as e:
        return v.fail("comment-changes-value", f"parse raised {e!r} for:\n{text}\n(without the comment the text gives name = {val!r})")
    if tup != {"name": val, "after": 1}:
        return v.fail("comment-changes-value", f"data = {tup!r}, expected name = {val!r} whatever the comment says:\n{text}")


def _check(case, v):
    if case.get("qc"):
        return _check_quoted_comment(case, v)
    lines = case["lines"]
    text = D.render(lines)
    exp = D.expected(lines)
    if not exp:
        return v.discard("no-parameters")
    try:
        tup, typ = parse(text)
    except Exception as e:
        return v.fail("parse-raised", f"parse raised {e!r} for text:\n{text}")
    if compare(v, text, exp, tup, typ) is not None or v.violations:
        return
    # metamorphic: no decoration, scaled indentation
    text2 = D.render(lines, strip_decor=True, indent_scale=case["scale"])
    try:
        tup2, typ2 = parse(text2)
    except Exception as e:
        return v.fail("parse-raised", f"parse raised {e!r} after removing blank/comment lines and scaling indents:\n{text2}")
    if compare(v, text2, exp, tup2, typ2) is not None or v.violations:
        return
    # the same text read from a file (add_file) gives the same parameters as the string
    # (a carriage return inside a file is a line ending for Python's text mode: only compared through add_string)
    if "\r" not in text and (_from_file(v, text, exp) is not None or v.violations):
        return
    # histories: the same parser object fed in two rounds, and one empty base environment shared by two parsers
    if _rounds(case, v, lines, exp) is not None or v.violations:
        return
    # classification
    nodes = [ln for ln in lines if ln["k"] in ("group", "def")]
    levels, stack = [], []
    for ln in nodes:
        while stack and ln["indent"] <= stack[-1]:
            stack.pop()
        levels.append(len(stack))
        stack.append(ln["indent"])
    deindent2 = any(a - b >= 2 for a, b in zip(levels, levels[1:]))
    dotted_below = any("." in ln["name"] and lv > 0 for ln, lv in zip(nodes, levels))
    rich_below = any(ln["k"] == "def" and ln["val"]["form"] in ("array", "table", "blockstr") and lv > 0
                     for ln, lv in zip(nodes, levels))
    v.nt((max(levels) >= 2 and deindent2) or dotted_below or rich_below)
    v.label("ragged" if case["ragged"] else "tree", f"depth{min(max(levels), 4)}")
    for ln in nodes:
        if ln["k"] == "def":
            v.label("val_" + ln["val"]["form"] + ("_" + ln["val"]["style"] if ln["val"]["form"] == "array" else ""))
    if deindent2:
        v.label("deindent>=2")
    v.info = {"text": text}
