"""C02 — a solver instance is unaffected by what it solved before."""
import numpy as np
from hypothesis import strategies as st

from ..core import Verdict
from ..refs import expr_ref as E

ID = "C02"
RULE = (
    'Histories of solve() calls on three long-lived instances (default AtomBase; an accumulating atom whose + '
    "extends its left operand in place; custom name-lookup atom whose constructor raises on 'boom' with the "
    'operator subset par/mul/truediv/add; string-concatenating atom with a custom step order as in the docs). '
    'Each call draws a valid expression of that configuration or one built to fail at a chosen token index k '
    '(unknown atom / raising atom constructor as the k-th atom, parenthesis left open after k tokens, missing '
    'operand at the end, wrong argument count in a function, an unknown atom 1-8 parenthesis levels down; atoms '
    'with quote characters); strategy long_history = 40-70 calls, most of them failing below nested parentheses. '
    'Oracle: a FRESH instance of the same configuration created for that call must give the same value, or both '
    'must raise the same exception type. Non-trivial: the history contains a failing solve with >=1 token already '
    'stored followed later by an expression that succeeds on the fresh instance. Round 4: fresh-instance answers '
    'are taken BEFORE the history as well (process-wide state), numpy error handling must be what it was after '
    'every call, names ending in e next to a sign. Round 5: calls made inside a with-block that the exception '
    'leaves; an atom type given as a factory function. Round 6: a configuration that leaves an operator without a '
    'step; user-defined operators whose constructor reads input. Rounds 7-8: step lists that name unselected '
    'operators; function arguments of equal hash(); a function among the operators without the plain parenthesis. '
    'Round 10: texts that differ only in their blanks but not in meaning or validity, one after the other. '
    'Distinct = distinct case JSON.'
)
ASSUMPTIONS = ["single-threaded histories", "exception messages are not compared (they embed token reprs), only the type"]
NT_FLOOR = 0.15

NAMES = ["foo", "bar", "2", "3", "10", "0.5", "rate", "2e-3", "1.5e+2", "size"]
WORDS = ["limit", "ab", "c", "100 km/s", "x y", "50000000000 km/s", "z"]


@st.composite
def default_expr(draw):
    t = draw(E.expr(depth=1, top=draw(st.sampled_from(["add", "add", "cmp", "or"]))))
    toks = [list(x) for x in E.tokens(t)]
    fail = draw(st.sampled_from([None, None, "atom", "open", "operand", "narg", "domain"]))
    if fail == "domain":
        # outside the domain of log / sqrt: numpy answers -inf / nan (no exception); nothing may stay behind
        text = draw(st.sampled_from(["2 * log(3-3) + 1", "sqrt(0 - 4)", "log10(0) * 2", "1 + sqrt(2 - 3)", "sqrt(4)/(sqrt(4)-2)",
                                     "(sqrt(4)-2)/(2-sqrt(4))"]))
        return {"cfg": "default", "text": text, "fail": None}
    if fail == "atom":
        idx = [i for i, (_x, g) in enumerate(toks) if g == "num"]
        i = idx[draw(st.integers(0, len(idx) - 1))]
        toks[i][0] = draw(st.sampled_from(["foo", "1e", "2..3", "x1", '5"', '"', "2'"]))
    elif fail == "open":
        i = draw(st.integers(0, len(toks)))
        toks.insert(i, ["(", "open"])
    elif fail == "operand":
        toks.append([draw(st.sampled_from(["*", "/", "+", "**", "==", "<"])), "bin"])
    elif fail == "narg":
        toks += [["+", "bin"], [draw(st.sampled_from(["sin(", "pow(", "logb("])), "fn"], ["1", "num"]]
        if toks[-2][0] == "sin(":
            toks += [[",", "comma"], ["2", "num"]]
        toks.append([")", "close"])
    text = E.render([tuple(x) for x in toks], [draw(st.integers(0, 1))])
    return {"cfg": "default", "text": text, "fail": fail}


@st.composite
def lookup_expr(draw):
    def gen(d):
        k = draw(st.sampled_from(["atom"] * 4 + (["par", "bin", "bin"] if d > 0 else [])))
        if k == "atom":
            return [draw(st.sampled_from(NAMES))]
        if k == "par":
            return ["("] + gen(d - 1) + [")"]
        return gen(d - 1) + [draw(st.sampled_from(["*", "/", "+"]))] + gen(d - 1)
    toks = gen(3)
    fail = draw(st.sampled_from([None, None, "boom", "unknown", "open", "operand"]))
    if fail in ("boom", "unknown"):
        idx = [i for i, x in enumerate(toks) if x not in "()*/+"]
        i = idx[draw(st.integers(0, len(idx) - 1))]
        toks[i] = "boom" if fail == "boom" else "qux"
    elif fail == "open":
        toks.insert(draw(st.integers(0, len(toks))), "(")
    elif fail == "operand":
        toks.append(draw(st.sampled_from(["*", "/", "+"])))
    # blank-separated or written tight (rate+1, 2e-3*foo)
    return {"cfg": "lookup", "text": (" " if draw(st.booleans()) else "").join(toks), "fail": fail}


@st.composite
def string_expr(draw):
    def side():
        n = draw(st.integers(1, 3))
        return " + ".join(draw(st.sampled_from(WORDS)) for _ in range(n))
    form = draw(st.sampled_from(["cmp", "cmp", "concat", "par"]))
    if form == "cmp":
        text = f"({side()}) > ({side()})"
    elif form == "concat":
        text = side()
    else:
        text = f"({side()}) + {draw(st.sampled_from(WORDS))}"
    fail = draw(st.sampled_from([None, None, "open", "operand"]))
    if fail == "open":
        text = text + " + (" + draw(st.sampled_from(WORDS))
    elif fail == "operand":
        text = text + " +"
    return {"cfg": "string", "text": text, "fail": fail}


@st.composite
def inplace_expr(draw):
    names = ["a", "b", "c", "a", "b", "1 m", "50 cm"]
    n = draw(st.integers(1, 4))
    parts = [draw(st.sampled_from(names)) for _ in range(n)]
    text = " + ".join(parts)
    if n >= 2 and draw(st.booleans()):
        text = "(" + " + ".join(parts[:2]) + ")" + "".join(" + " + x for x in parts[2:])
    fail = draw(st.sampled_from([None, None, None, "open", "operand"]))
    if fail == "open":
        text += " + (" + draw(st.sampled_from(names))
    elif fail == "operand":
        text += " +"
    return {"cfg": "inplace", "text": text, "fail": fail}


@st.composite
def deep_fail(draw):
    """A failure (or none) d parenthesis levels down: whatever is kept per level must not pile up over a long history."""
    d = draw(st.integers(1, 8))
    cfg = draw(st.sampled_from(["default", "default", "lookup"]))
    bad = draw(st.sampled_from([True, True, True, False]))
    if cfg == "default":
        inner = ("1 + foo" if bad else "1 + 2")
        text = "".join(f"{i + 1} * (" for i in range(d)) + inner + ")" * d
    else:
        inner = ("foo + boom" if bad else "foo + bar")
        text = "".join("2 * ( " for _ in range(d)) + inner + " )" * d
    return {"cfg": cfg, "text": text, "fail": "deep" if bad else None}


# names ending in e/E next to a sign, and exponent-notation literals, written without blanks
lookup_tight = st.sampled_from(["rate+foo", "size+2", "2e-3*foo", "1.5e+2+bar", "rate+rate", "2*(size+1e-3)", "foo*2.5e-3+rate",
                                "3*rate+size"]).map(lambda t: {"cfg": "lookup", "text": t, "fail": None})

factory_calls = st.sampled_from(["-2.5", "1.5*-0.5", "-3", "2*-4", "2.5*4", "7/2", "1+2", "2.5*2.0", "3*(2+", "0.5+(1+)", "4+foo",
                                 "2*(3+4)", "-1.5+2"]).map(lambda t: {"cfg": "factory", "text": t, "fail": None})


orphan_calls = st.sampled_from(["1+2*3", "2", "2 > 1", "(1+2)*3", "4*(2 > 1)", "1+", "2*3+4"]).map(
    lambda t: {"cfg": "orphan", "text": t, "fail": None})
# a step list that also names operators outside the selected subset
extra_calls = st.sampled_from(["1 + 1", "2 * 3 + 4 > 9", "2*3", "1 +", "4 > 3", "2 + 3 * 4", "(2", "5"]).map(
    lambda t: {"cfg": "extra_steps", "text": t, "fail": None})
# one function, argument values that are different numbers with equal hash() (-1 and -2; True, 1 and 1.0)
fn_pairs = st.sampled_from(["sin(-1)", "sin(-2)", "exp(-1)", "exp(-2)", "cos(-2)", "cos(-1)", "cos(1)", "cos(1 == 1)",
                            "sin(1.0)", "sin(1)", "sin(2 > 1)", "exp(-2) + exp(-1)", "sin(-1) * sin(-2)"]).map(
    lambda t: {"cfg": "default", "text": t, "fail": None})
# a function among the selected operators, but no plain parenthesis
nopar_calls = st.sampled_from(["(1+2)+1", "sqrt(4)+1", "sqrt(4)+foo", "1+2", "sqrt(9)", "(2)", "sqrt(1+3)+(1)"]).map(
    lambda t: {"cfg": "fn_no_par", "text": t, "fail": None})
postfix_calls = st.sampled_from(["3.14159@2", "2.71828@3", "1.23456@1 + 2", "2 * 9.87654@3", "3.14159@2 + foo", "(3.14159@2",
                                 "7.5 + 1", "1.23456@4 * 2", "0.55555@0"]).map(
    lambda t: {"cfg": "postfix", "text": t, "fail": None})


@st.composite
def _call(draw):
    c = dict(draw(st.one_of(default_expr(), default_expr(), lookup_expr(), string_expr(), inplace_expr(), deep_fail(),
                            lookup_tight, factory_calls, orphan_calls, postfix_calls, extra_calls, fn_pairs, fn_pairs, nopar_calls)))
    # the call may be made inside 'with solver:' (an exception then leaves the block before it is caught)
    c["with"] = draw(st.integers(0, 3)) == 0
    return c


call = _call()


@st.composite
def history(draw, n):
    return {"calls": draw(st.lists(call, min_size=2, max_size=n))}


@st.composite
def long_history(draw):
    calls = draw(st.lists(st.one_of(deep_fail(), deep_fail(), deep_fail(), default_expr()), min_size=40, max_size=70))
    return {"calls": calls + [draw(deep_fail()), draw(default_expr())]}


# expressions that differ only in where the blanks stand but not in what they mean: a blank inside a number or inside a
# two-character operator makes the text ill-formed (default atom), a blank inside a word is part of the word (string atom)
RESPACED = [
    ("default", ["12 + 1", "1 2 + 1", "1 2+1", "12+1"]),
    ("default", ["2 ** 3", "2 * * 3", "2**3", "2* *3"]),
    ("default", ["2 <= 30", "2 < = 30", "2 <= 3 0", "2<=30"]),
    ("default", ["1 && 0", "1 & & 0", "1&&0"]),
    ("default", ["sin(10) + 1.5", "sin(1 0) + 1.5", "sin(10) + 1. 5", "s in(10) + 1.5"]),
    ("default", ["3 != 3", "3 ! = 3", "3 !=3"]),
    ("string", ["limit + 100 km/s", "limit + 100km/s", "limit+100 km/s", "li mit + 100 km/s"]),
    ("string", ["(abcd) > (ab cd)", "(ab cd) > (abcd)", "(abcd)>(ab cd)", "(a bcd) > (abc d)"]),
    ("string", ["x y + z", "xy + z", "x y+z", "x  y + z"]),
]


@st.composite
def respaced_history(draw):
    cfg, family = draw(st.sampled_from(RESPACED))
    texts = draw(st.lists(st.sampled_from(family), min_size=2, max_size=5))
    calls = []
    for t in texts:
        calls.append({"cfg": cfg, "text": t, "fail": None, "with": draw(st.integers(0, 4)) == 0})
        if draw(st.integers(0, 2)) == 0:
            calls.append(draw(call))
    return {"calls": calls, "respaced": True}


def strategies(tier):
    return {"history": (history(12 if tier == "quick" else 30), 1500, 30000),
            "respaced": (respaced_history(), 200, 4000),
            "long_history": (long_history(), 160, 3000, 20)}


# --------------------------------------------------------------------------- configurations

def make(cfg):
    from scinumtools.solver import (ExpressionSolver, AtomBase, OperatorPar, OperatorMul, OperatorTruediv, OperatorAdd,
                                    OperatorGt, Otype)
    if cfg == "default":
        return ExpressionSolver(AtomBase)
    if cfg == "lookup":
        class Atom(AtomBase):
            def __init__(self, value):
                if isinstance(value, str):
                    value = value.strip()
                    if value == "boom":
                        raise RuntimeError("atom constructor fails")
                    if value == "foo":
                        value = 3.0
                    elif value == "bar":
                        value = 4.0
                    elif value == "rate":
                        value = 5.0
                    elif value == "size":
                        value = 6.0
                    else:
                        value = float(value)
                self.value = value

            def __add__(self, o):
                return Atom(self.value + o.value)

            def __mul__(self, o):
                return Atom(self.value * o.value)

            def __truediv__(self, o):
                return Atom(self.value / o.value)
        ops = {"par": OperatorPar, "mul": OperatorMul, "truediv": OperatorTruediv, "add": OperatorAdd}
        return ExpressionSolver(Atom, ops)

    if cfg == "orphan":
        # a subset of operators with a custom step order that leaves one operator ('gt') without a step: expressions that
        # do not use it are solved, those that do are refused - every time alike
        from scinumtools.solver import OperatorGt
        ops = {"par": OperatorPar, "mul": OperatorMul, "add": OperatorAdd, "gt": OperatorGt}
        steps = [dict(operators=["par"], otype=Otype.ARGS), dict(operators=["mul"], otype=Otype.BINARY),
                 dict(operators=["add"], otype=Otype.BINARY)]
        return ExpressionSolver(AtomBase, ops, steps)
    if cfg == "fn_no_par":
        # the selected operators contain a function but not the parenthesis: '(1+2)' is not an operand here, before and
        # after a function call alike
        from scinumtools.solver import OperatorSqrt
        return ExpressionSolver(AtomBase, {"sqrt": OperatorSqrt, "add": OperatorAdd})
    if cfg == "extra_steps":
        # a subset of operators with a step list that also names operators which were not selected
        from scinumtools.solver import OperatorGt
        ops = {"add": OperatorAdd, "mul": OperatorMul, "gt": OperatorGt}
        steps = [dict(operators=["mul", "truediv"], otype=Otype.BINARY), dict(operators=["add", "sub"], otype=Otype.BINARY),
                 dict(operators=["gt"], otype=Otype.BINARY)]
        return ExpressionSolver(AtomBase, ops, steps)
    if cfg == "postfix":
        # user-defined operators whose constructor reads more than their symbol (a postfix '@<digits>' rounding)
        from scinumtools.solver import OperatorBase

        class OperatorRound(OperatorBase):
            symbol: str = "@"

            def __init__(self, expr=None):
                super().__init__(expr)
                digits = ""
                while expr.right[:1].isdigit():
                    digits += expr.right[0]
                    expr.remove(expr.right[0])
                self.digits = int(digits)

            def operate_unary(self, tokens):
                left = tokens.get_left()
                tokens.put_left(AtomBase(round(left.value, self.digits)))
        ops = {"par": OperatorPar, "round": OperatorRound, "mul": OperatorMul, "add": OperatorAdd}
        steps = [dict(operators=["par"], otype=Otype.ARGS), dict(operators=["round"], otype=Otype.UNARY),
                 dict(operators=["mul"], otype=Otype.BINARY), dict(operators=["add"], otype=Otype.BINARY)]
        return ExpressionSolver(AtomBase, ops, steps)
    if cfg == "factory":
        # the atom type given as a factory function that returns one of two classes (the package's own DIP and unit
        # solvers pass factories)
        class Whole(AtomBase):
            def __init__(self, value):
                self.value = int(value)

            def __neg__(self):
                return Whole(-self.value)

        class Real(AtomBase):
            def __init__(self, value):
                self.value = float(value)

            def __neg__(self):
                return Real(-self.value)

        def number(string):
            string = str(string).strip()
            return Whole(string) if string.lstrip("+-").isdigit() else Real(string)
        return ExpressionSolver(number)
    if cfg == "inplace":
        # a legal custom atom whose operator accumulates into the left operand and returns it
        class Bag(AtomBase):
            def __init__(self, value):
                self.value = [str(value).strip()]

            def __add__(self, other):
                self.value.extend(other.value)
                return self
        return ExpressionSolver(Bag, {"par": OperatorPar, "add": OperatorAdd},
                                [dict(operators=["par"], otype=Otype.ARGS), dict(operators=["add"], otype=Otype.BINARY)])

    class AtomCustom(AtomBase):
        def __init__(self, value):
            self.value = str(value)

        def __add__(self, other):
            return AtomCustom(self.value + other.value)

        def __gt__(self, other):
            return AtomCustom(len(self.value) > len(other.value))
    ops = {"add": OperatorAdd, "gt": OperatorGt, "par": OperatorPar}
    steps = [dict(operators=["par"], otype=Otype.ARGS), dict(operators=["add"], otype=Otype.BINARY),
             dict(operators=["gt"], otype=Otype.BINARY)]
    return ExpressionSolver(AtomCustom, ops, steps)


def outcome(solver, text, in_with=False):
    # no np.errstate wrapper here: a wrapper would silently undo a solver that leaves numpy's error handling changed
    try:
        if in_with:
            with solver:                       # an exception leaves the with-block; the instance is used again later
                r = solver.solve(text)
        else:
            r = solver.solve(text)
    except Exception as e:
        return ("raise", type(e).__name__)
    if r is None:
        return ("none", None)
    val = getattr(r, "value", repr(r))
    return ("value", list(val) if isinstance(val, list) else val)


def same(a, b):
    if a[0] != b[0]:
        return False
    if a[0] != "value":
        return a[1] == b[1]
    x, y = a[1], b[1]
    if isinstance(x, (str, list)) or isinstance(y, (str, list)):
        return x == y
    try:
        if x != x and y != y:
            return True
    except Exception:
        pass
    return type(x) is type(y) and x == y or (not isinstance(x, (bool, np.bool_)) and not isinstance(y, (bool, np.bool_))
                                              and float(x) == float(y))


def check(case):
    v = Verdict()
    live = {}
    failed_before = {}
    nt = False
    err0 = np.geterr()
    try:
        return _check(case, v, live, failed_before, nt, err0)
    finally:
        np.seterr(**err0)


def _check(case, v, live, failed_before, nt, err0):
    # what a fresh instance answers, asked before anything else happened in this case (process-wide state included)
    pristine = [outcome(make(c["cfg"]), c["text"]) for c in case["calls"]]
    for i, c in enumerate(case["calls"]):
        cfg = c["cfg"]
        if cfg not in live:
            live[cfg] = make(cfg)
        got = outcome(live[cfg], c["text"], in_with=bool(c.get("with")))
        if np.geterr() != err0:
            return v.fail("global-state", f"call {i} solve({c['text']!r}) left numpy's error handling at {np.geterr()} "
                                          f"(was {err0})")
        ref = outcome(make(cfg), c["text"])
        if not same(ref, pristine[i]):
            return v.fail("history-dependent", f"call {i}: a FRESH {cfg} instance answers solve({c['text']!r}) -> {ref!r} "
                                               f"now, but {pristine[i]!r} before the earlier calls of this history")
        if not same(got, ref):
            prev = [x["text"] for x in case["calls"][:i] if x["cfg"] == cfg]
            return v.fail("history-dependent", f"call {i} solve({c['text']!r}) on the reused {cfg} instance -> {got!r}, "
                                               f"fresh instance -> {ref!r}; earlier calls on it: {prev!r}")
        if ref[0] == "raise":
            # a failure that happens after at least one token was stored
            if c["fail"] in ("open", "operand", "narg") or (c["fail"] in ("atom", "boom", "unknown")):
                failed_before[cfg] = True
            v.label("failing_call")
        elif failed_before.get(cfg):
            nt = True
    if case.get("respaced"):
        # non-trivial: the same characters in another spacing were answered differently by fresh instances
        outs = {repr(p_) for c_, p_ in zip(case["calls"], pristine) if c_["fail"] is None and "with" in c_}
        nt = nt or len(outs) >= 2
        v.label("same_text_in_other_spacing")
    v.nt(nt)
    v.label("history", *{"cfg_" + c["cfg"] for c in case["calls"]})
    return v
