"""C18 — DIP expressions compute unit-aware results under the documented priorities."""
import itertools
import math

import numpy as np

from hypothesis import strategies as st

from ..core import Verdict, close
from ..refs import units_ref as R

ID = "C18"
RULE = (
    'An environment of typed nodes (floats with length / time / velocity units, int, bool, str, float matrix) '
    'and, in half of the cases, a custom unit defined in the same text. Numerical: dimension-typed expression '
    "ASTs (operands '<number> <unit>' or {?ref}; blank-delimited + - * /; parentheses; exp pow log10 sin cos on "
    'dimensionless arguments, pow(length,2)) evaluated by an independent reference in base units with * / before '
    "+ -, left to right; solve(expr, unit) must agree to 1e-9 for a requested unit of the result's dimension, "
    'also when the same expression is a node value (dimensionless results also in %, and in a custom [dozen]); '
    'adding different dimensions, or requesting a unit of another dimension, must raise. Logical: comparisons of '
    'same-dimension operands (equal, equal after conversion, 1e-8 relative apart, or >= 1e-4 apart; magnitudes '
    'from 8e-12 to 5e6; integer nodes compared with each other across units, 250 cm vs 2 m, 1 us vs 1000 ns), ~, '
    '!{?ref}, ~!{?ref}, &&, ||, parentheses, evaluated directly. Templates: text with {{?ref}}, {{?ref}[slice]}, '
    "{{?ref}:format} and single-brace noise, expected via Python's format(). Non-trivial: >=3 operators with "
    'mixed priorities and >=2 different units, or a custom unit, or a negated comparison / definedness test. '
    'Later rounds: frequency operands with reciprocal products and ratios (Hz * s, 1 / s against Hz; time and '
    'frequency are never drawn as a mismatch because the units module converts them into each other by '
    'inversion); int nodes defined by expressions; one NumericalSolver re-used after a refused expression; the '
    'absolute tolerance is scaled with the largest intermediate of the expression (cancelling sums). Rounds 7-8: '
    'a leading blank-separated minus; != as the negation of ==; integer nodes against float nodes; per-cent '
    'arguments of exp / log10; nested two-argument functions. Distinct = distinct case JSON.'
)
ASSUMPTIONS = [
    "operators are blank-separated as the documentation requires; negative literals are written '-3'",
    "functions are the documented ones that exist in the code (exp, pow, log10, sin, cos); arguments are dimensionless",
    "~ is applied to boolean references, literals and parenthesised expressions only",
    "values are never inside [0.3,3]x the 1e-6 equality tolerance",
    "cases with |x|>100 for sin/cos or |x|>50 for exp are discarded (ill-conditioned, last-bit differences are amplified)",
]
NT_FLOOR = 0.3
# coverage-guided complement (sv/fuzz.py): strategy -> number of cases
FUZZ = {"thorough": {"numerical": 15000, "logical": 15000}}
_uid = itertools.count()

UNITS = {"freq": ["Hz", "kHz", "s-1"], "angle": ["rad", "deg", "mrad"], "len": ["m", "cm", "km", "mm"], "time": ["s", "min", "ms"], "vel": ["m/s", "km/h", "cm/s"], "area": ["m2", "cm2"],
         "none": [None]}
REQ_NONE = [None, "%", "%"]      # units a dimensionless RESULT is requested in (operands stay plain numbers)
CUSTOM = ("clen", "2", "cm")     # $unit clen = 2 cm  -> [clen]
CUSTOM0 = ("dozen", "12")        # $unit dozen = 12   -> [dozen], a dimensionless custom unit
NODES = {"a": ("float", 10.0, "m"), "b": ("float", 300.0, "cm"), "t": ("float", 2.0, "min"), "v": ("float", 36.0, "km/h"),
         "n": ("int", 4, None), "x": ("float", 0.5, None), "flag": ("bool", True, None), "off": ("bool", False, None),
         "name": ("str", "Will Smith", None), "id": ("int", 345, None), "w": ("float", 62.3, "kg"),
         "plank": ("int", 250, "cm"), "gap": ("int", 2, "m"), "pulse": ("int", 1, "us"), "window": ("int", 1000, "ns"),
         "span": ("int", 3, "km"), "beam": ("float", 2.5, "m"), "nul": ("float", None, "m"), "blank": ("str", None, None)}
# integer nodes compared with each other across units: (left, right) -> relation of left to right
INT_PAIRS = [("plank", "gap", "gt"), ("gap", "plank", "lt"), ("pulse", "window", "eq"), ("window", "pulse", "eq"),
             ("span", "plank", "gt"), ("plank", "span", "lt"), ("gap", "span", "lt"),
             # an integer node against a float node
             ("plank", "a", "lt"), ("a", "plank", "gt"), ("b", "gap", "gt"), ("gap", "b", "lt"), ("span", "a", "gt"),
             ("n", "x", "gt"), ("x", "n", "lt"), ("plank", "beam", "eq"), ("beam", "plank", "eq")]
RECIP = {"freq": "time", "time": "freq"}
NODE_DIM = {"a": "len", "b": "len", "t": "time", "v": "vel", "n": "none", "x": "none"}


def F(u, custom):
    if u is None:
        return 1.0
    if u == f"[{CUSTOM[0]}]":
        return float(CUSTOM[1]) * R.factor_of_expression_text(CUSTOM[2])
    if u == f"[{CUSTOM0[0]}]":
        return float(CUSTOM0[1])
    return R.factor_of_expression_text(u)


num = st.sampled_from([1.0, 2.0, 3.0, 4.0, 5.0, 7.0, 10.0, 0.5, 20.0, 300.0, 2.5, 36.0, 1e3, -3.0, -4.0])
posnum = st.sampled_from([1.0, 2.0, 3.0, 5.0, 10.0, 0.5, 20.0, 7.0])


@st.composite
def atom(draw, dim, custom, positive=False):
    refs = [k for k, d in NODE_DIM.items() if d == dim]
    if refs and draw(st.integers(0, 2)) == 0:
        return ["ref", draw(st.sampled_from(refs))]
    units = list(UNITS[dim])
    if custom and dim == "len":
        units.append(f"[{CUSTOM[0]}]")
    return ["num", draw(posnum if positive else num), draw(st.sampled_from(units))]


def expr(dim, custom, depth, positive=False):
    @st.composite
    def gen(draw, dim=dim, depth=depth, positive=positive):
        if depth <= 0:
            return draw(atom(dim, custom, positive))
        rules = {
            "len": ["atom", "atom", "sum", "sum", "len*none", "none*len", "area/len", "vel*time", "par"],
            "area": ["atom", "len*len", "sum", "pow(len,2)"],
            "time": ["atom", "sum", "len/vel"],
            "vel": ["atom", "len/time"],
            "none": ["atom", "atom", "sum", "len/len", "none*none", "fn", "fn_angle", "powi", "pow_nested", "par", "time/time",
                     "freq*time", "time*freq"],
            "freq": ["atom", "atom", "sum", "none/time", "vel/len"],
            "angle": ["atom", "atom", "sum", "angle*none"],
        }[dim]
        r = draw(st.sampled_from(rules))
        sub = lambda d, pos=positive: draw(gen(dim=d, depth=depth - 1, positive=pos))
        if r == "atom":
            return draw(atom(dim, custom, positive))
        if r == "par":
            return ["par", sub(dim)]
        if r == "sum":
            n = draw(st.integers(1, 2))
            ops = [draw(st.sampled_from(["+", "+", "-"] if not positive else ["+"])) for _ in range(n)]
            def wrap(x):      # a sum on the right of + or - keeps its grouping only inside parentheses
                return ["par", x] if x[0] == "chain" and x[2] and x[2][0][0] in "+-" else x
            return ["chain", sub(dim), [[o, wrap(sub(dim))] for o in ops]]
        if r == "fn":
            f = draw(st.sampled_from(["exp", "log10", "sin", "cos"]))
            arg = draw(gen(dim="none", depth=depth - 1, positive=True)) if f == "log10" else sub("none", positive)
            if f in ("exp", "log10") and draw(st.integers(0, 3)) == 0:
                # a dimensionless argument written in per cent: 10 % is the number 0.1
                arg = ["num", draw(st.sampled_from([10.0, 50.0, 250.0, 1.0, 100.0])), "%"]
            return ["fn", f, arg]
        if r == "fn_angle":
            # an angle given in deg / mrad must be taken in radians by sin and cos
            return ["fn", draw(st.sampled_from(["sin", "cos"])), sub("angle", False)]
        if r == "angle*none":
            left = sub("angle")
            if left[0] == "chain" and left[2] and left[2][0][0] in "+-":
                left = ["par", left]
            return ["chain", left, [["*", draw(atom("none", custom, True))]]]
        if r == "powi":
            return ["pow", draw(gen(dim="none", depth=depth - 1, positive=True)), draw(st.sampled_from([2, 3]))]
        if r == "pow_nested":
            # a two-argument function whose FIRST argument contains calls of a two-argument function
            inner = lambda: ["pow", draw(atom("none", custom)) if draw(st.booleans()) else ["num", draw(st.sampled_from([2.0, 3.0, 0.5])), None],
                             draw(st.sampled_from([2, 3]))]
            first = ["chain", inner(), [["+", inner()]]] if draw(st.booleans()) else inner()
            return ["pow", first, draw(st.sampled_from([2, 3]))]
        if r == "pow(len,2)":
            return ["pow", sub("len"), 2]
        a, op, b = {"len*none": ("len", "*", "none"), "none*len": ("none", "*", "len"), "area/len": ("area", "/", "len"),
                    "vel*time": ("vel", "*", "time"), "len*len": ("len", "*", "len"), "len/vel": ("len", "/", "vel"),
                    "len/time": ("len", "/", "time"), "len/len": ("len", "/", "len"), "none*none": ("none", "*", "none"),
                    "time/time": ("time", "/", "time"), "freq*time": ("freq", "*", "time"), "time*freq": ("time", "*", "freq"),
                    "none/time": ("none", "/", "time"), "vel/len": ("vel", "/", "len")}[r]
        left = sub(a)
        right = draw(gen(dim=b, depth=depth - 1, positive=True)) if op == "/" else sub(b)
        # keep the tree's grouping visible in the text: a sum on either side of * / gets parentheses
        if left[0] == "chain" and left[2] and left[2][0][0] in "+-":
            left = ["par", left]
        if right[0] == "chain":
            right = ["par", right]
        return ["chain", left, [[op, right]]]
    return gen()


@st.composite
def numeric_case(draw):
    custom = draw(st.booleans())
    dim = draw(st.sampled_from(["len", "len", "none", "area", "time", "vel", "none", "freq"]))
    e = draw(expr(dim, custom, draw(st.integers(1, 3))))
    lead_minus = draw(st.integers(0, 7)) == 0
    if lead_minus:
        e = ["chain", ["lneg", draw(atom(dim, custom))], [[draw(st.sampled_from(["+", "-"])), ["par", e]]]]
    units = (REQ_NONE if dim == "none" else list(UNITS[dim])) + ([f"[{CUSTOM[0]}]"] if custom and dim == "len" else []) + \
        ([f"[{CUSTOM0[0]}]"] if custom and dim == "none" else [])
    mism = draw(st.integers(0, 7))
    other = None
    unit = draw(st.sampled_from(units))
    wrong_unit = False
    if mism == 0:
        # time and frequency are reciprocal dimensions, which the units module converts into each other by
        # inversion everywhere (C04): a time operand in a frequency sum is not a mismatch of dimensions
        d2 = draw(st.sampled_from([d for d in ("len", "time", "vel") if d != dim and RECIP.get(dim) != d]))
        other = draw(atom(d2, custom))
    elif mism == 1:
        # the requested unit has another dimension than the result: must be refused, not ignored
        d2 = draw(st.sampled_from([d for d in ("len", "time", "vel", "none") if d != dim and RECIP.get(dim) != d]))
        unit = draw(st.sampled_from(["%"] if d2 == "none" else UNITS[d2]))
        wrong_unit = True
    return {"kind": "numeric", "custom": custom, "dim": dim, "expr": e, "unit": unit,
            "mismatch": other, "wrong_unit": wrong_unit, "as_node": draw(st.booleans()),
            "prelude": custom and draw(st.booleans()), "int_node": draw(st.integers(0, 4)) == 0,
            "after_failed": draw(st.sampled_from([None, None, "ref", "dim"]))}


@st.composite
def logical_case(draw):
    custom = draw(st.booleans())

    def comparison():
        dim = draw(st.sampled_from(["len", "len", "time", "none"]))
        left = draw(atom(dim, custom))
        mag = draw(st.sampled_from([None, None, 5e6, 1.2e4, 3e-7, 8e-5, 3e-10, 8e-12]))
        if mag is not None:
            # magnitudes far from one: the comparison tolerance is relative
            left = ["num", mag, draw(st.sampled_from(UNITS[dim]))]
        rel = draw(st.sampled_from(["equal", "equal_conv", "close", "apart", "apart"]))
        op = draw(st.sampled_from(["==", "!=", "<", ">", "<=", ">="]))
        if rel == "close":
            op = draw(st.sampled_from(["==", "<=", ">=", "!="]))     # 1e-8 relative apart: equal for the tolerant operators (!= is the negation of ==)
        factor = draw(st.sampled_from([0.5, 2.0, 1.0001, 0.9999]))       # the tolerance is relative at every magnitude
        return ["cmp", left, op, rel, dim, draw(st.sampled_from(UNITS[dim])), factor]

    def term(d):
        k = draw(st.sampled_from(["cmp", "cmp", "cmp", "bool", "defined", "not", "par", "cmpn"] if d > 0 else
                                 ["cmp", "bool", "defined", "cmpn"]))
        if k == "cmp":
            return comparison()
        if k == "cmpn":
            a, b, rel = draw(st.sampled_from(INT_PAIRS))
            # 1 us vs 1000 ns is an equality reached through a conversion: tolerant operators only
            op = draw(st.sampled_from(["==", "<=", ">=", "!="] if rel == "eq" else ["==", "!=", "<", ">", "<=", ">="]))
            return ["cmpn", a, op, b, rel]
        if k == "bool":
            return draw(st.sampled_from([["lit", True], ["lit", False], ["bref", "flag"], ["bref", "off"]]))
        if k == "defined":
            return ["defined", draw(st.sampled_from(["a", "flag", "nothing", "g.missing", "nul", "blank", "off"])), draw(st.booleans())]
        if k == "not":
            inner = draw(st.sampled_from(["bref", "lit", "par"]))
            if inner == "bref":
                return ["not", ["bref", draw(st.sampled_from(["flag", "off"]))]]
            if inner == "lit":
                return ["not", ["lit", draw(st.booleans())]]
            return ["not", ["par", tree(d - 1)]]
        return ["par", tree(d - 1)]

    def tree(d):
        n_or = draw(st.sampled_from([1, 1, 2, 3]))
        ors = []
        for _ in range(n_or):
            n_and = draw(st.sampled_from([1, 1, 2, 3]))
            ors.append([term(d) for _ in range(n_and)])
        return ["or", ors]
    return {"kind": "logical", "custom": custom, "tree": tree(draw(st.integers(0, 2))), "as_node": draw(st.booleans()),
            "prelude": custom and draw(st.booleans())}


@st.composite
def template_case(draw):
    parts = []
    for _ in range(draw(st.integers(1, 5))):
        k = draw(st.sampled_from(["text", "ref", "ref", "fmt", "slice", "noise", "elem"]))
        if k == "text":
            parts.append(["text", draw(st.sampled_from(["ID: ", " and ", "Name=", "\n", " - ", "x"]))])
        elif k == "ref":
            parts.append(["ref", draw(st.sampled_from(["id", "name", "w", "flag", "x", "a"])), None, None])
        elif k == "fmt":
            r, f = draw(st.sampled_from([("id", "05d"), ("w", ".3e"), ("a", ".2f"), ("x", ".1f"), ("id", "d"), ("w", "8.2f"), ("name", "s")]))
            parts.append(["ref", r, None, f])
        elif k == "slice":
            parts.append(["ref", "name", draw(st.sampled_from(["5:", ":4", "2:6", "0", "3:3"])), None])     # 3:3 is empty
        elif k == "elem":
            parts.append(["ref", "mat", draw(st.sampled_from(["1,1", "0,2", "1,0"])), draw(st.sampled_from([None, ".2e", ".1f"]))])
        else:
            parts.append(["text", draw(st.sampled_from(["{not a ref}", "{ }", "}", "{x"]))])
    return {"kind": "template", "parts": parts, "as_node": draw(st.booleans())}


def strategies(tier):
    return {"numerical": (numeric_case(), 2500, 50000), "logical": (logical_case(), 2000, 40000),
            "template": (template_case(), 800, 15000)}


# --------------------------------------------------------------------------- environment, rendering, reference

MAT = [[23.4, 235.4, 34.0], [1e10, 2e23, 5e20]]


def env_text(custom):
    L = []
    if custom:
        L.append(f"$unit {CUSTOM[0]} = {CUSTOM[1]} {CUSTOM[2]}")
        L.append(f"$unit {CUSTOM0[0]} = {CUSTOM0[1]}")
    for k, (t, val, u) in NODES.items():
        if val is None:
            lit = "none"              # the node exists, its value is empty
        elif t == "bool":
            lit = "true" if val else "false"
        elif t == "str":
            lit = "'" + val + "'"
        else:
            lit = repr(val)
        L.append(f"{k} {t} = {lit}" + (f" {u}" if u else ""))
    L.append("mat float[2,3] = [[23.4,235.4,34.0],[1e10,2e23,5e20]]")
    return "\n".join(L)


def fmtnum(x):
    if float(x) == int(x) and abs(x) < 1e6:
        return str(int(x))
    return repr(float(x))


def render(e):
    k = e[0]
    if k == "num":
        return fmtnum(e[1]) + (f" {e[2]}" if e[2] else "")
    if k == "ref":
        return "{?" + e[1] + "}"
    if k == "par":
        return "(" + render(e[1]) + ")"
    if k == "lneg":
        # a blank-separated minus in front of the first operand (the only way to negate a reference)
        return " - " + render(e[1])
    if k == "fn":
        return f"{e[1]}(" + render(e[2]) + ")"
    if k == "pow":
        return "pow(" + render(e[1]) + f", {e[2]})"
    out = render(e[1])
    for op, x in e[2]:
        out += f" {op} " + render(x)
    return out


def evaluate(e, custom):
    """value in base units; chains: * and / first (left to right), then + and - (left to right)"""
    k = e[0]
    if k == "num":
        return e[1] * F(e[2], custom)
    if k == "ref":
        t, val, u = NODES[e[1]]
        return float(val) * F(u, custom)
    if k == "par":
        return evaluate(e[1], custom)
    if k == "lneg":
        return -evaluate(e[1], custom)
    if k == "fn":
        x = evaluate(e[2], custom)
        # ill-conditioned arguments amplify last-bit differences beyond any fixed tolerance: not this property's business
        if (e[1] in ("sin", "cos") and abs(x) > 100) or (e[1] == "exp" and abs(x) > 50) or (e[1] == "log10" and not x > 1e-6):
            raise ValueError("ill-conditioned function argument")
        return {"exp": math.exp, "log10": math.log10, "sin": math.sin, "cos": math.cos}[e[1]](x)
    if k == "pow":
        return evaluate(e[1], custom) ** e[2]
    terms = [evaluate(e[1], custom)]
    ops = []
    for op, x in e[2]:
        v2 = evaluate(x, custom)
        if op in "*/":
            terms[-1] = terms[-1] * v2 if op == "*" else terms[-1] / v2
        else:
            ops.append(op)
            terms.append(v2)
    acc = terms[0]
    for op, t in zip(ops, terms[1:]):
        acc = acc + t if op == "+" else acc - t
    return acc


def magnitude(e, custom):
    """Size of the largest intermediate: sums that cancel leave rounding noise proportional to their terms, not to the
    (possibly zero) result, so the absolute tolerance is scaled with this number."""
    k = e[0]
    if k in ("num", "ref"):
        return abs(evaluate(e, custom))
    if k in ("par", "lneg"):
        return magnitude(e[1], custom)
    if k == "fn":
        x, m = evaluate(e[2], custom), magnitude(e[2], custom)
        if m > 10 * abs(x) and m > 1e-3:
            raise ValueError("function of a cancelling sum")
        return abs(evaluate(e, custom))
    if k == "pow":
        return magnitude(e[1], custom) ** e[2]
    terms = [magnitude(e[1], custom)]
    for op, x in e[2]:
        m2 = magnitude(x, custom)
        if op == "*":
            terms[-1] = terms[-1] * m2
        elif op == "/":
            terms[-1] = terms[-1] / abs(evaluate(x, custom)) * (m2 / abs(evaluate(x, custom)))
        else:
            terms.append(m2)
    return sum(terms)


def stats(e, acc=None):
    acc = acc if acc is not None else {"ops": [], "units": set(), "custom": False}
    k = e[0]
    if k == "num":
        if e[2]:
            acc["units"].add(e[2])
            if e[2].startswith("["):
                acc["custom"] = True
    elif k == "ref":
        u = NODES[e[1]][2]
        if u:
            acc["units"].add(u)
    elif k in ("par", "lneg"):
        stats(e[1], acc)
        if k == "lneg":
            acc["ops"].append("-")
    elif k == "fn":
        acc["ops"].append("fn")
        stats(e[2], acc)
    elif k == "pow":
        acc["ops"].append("fn")
        stats(e[1], acc)
    else:
        stats(e[1], acc)
        for op, x in e[2]:
            acc["ops"].append(op)
            stats(x, acc)
    return acc


def make_env(custom, extra="", alt=False):
    from scinumtools.dip import DIP
    with DIP(name=f"c18_{next(_uid)}") as p:
        text = env_text(custom)
        if alt:
            # an unrelated earlier text of the same process that gave the custom units another meaning
            text = text.replace(f"$unit {CUSTOM[0]} = {CUSTOM[1]} {CUSTOM[2]}", f"$unit {CUSTOM[0]} = 7 mm")
            text = text.replace(f"$unit {CUSTOM0[0]} = {CUSTOM0[1]}", f"$unit {CUSTOM0[0]} = 10")
        p.add_string(text + ("\n" + extra if extra else ""))
        return p.parse()


def prelude(custom, kind, text, unit=None):
    """Evaluate the same expression text once under other definitions of the custom units (result ignored)."""
    if not custom:
        return
    from scinumtools.dip.solvers import NumericalSolver, LogicalSolver
    try:
        env = make_env(True, alt=True)
        if kind == "numeric":
            with NumericalSolver(env) as s:
                s.solve(text, unit)
        else:
            with LogicalSolver(env) as s:
                s.solve(text)
    except Exception:
        pass


def check_numeric(case, v):
    from scinumtools.dip import Format
    from scinumtools.dip.solvers import NumericalSolver
    custom = case["custom"]
    e = case["expr"]
    text = render(e)
    if case["mismatch"] is not None:
        text = text + " + " + render(case["mismatch"])
        try:
            env = make_env(custom)
            with NumericalSolver(env) as s:
                r = s.solve(text, case["unit"])
        except Exception:
            v.nt(True)
            v.label("dimension_mismatch")
            return
        return v.fail("mismatch-accepted", f"solve({text!r}, {case['unit']!r}) returned {r!r} although dimensions differ")
    try:
        exp_base = evaluate(e, custom)
        mag_base = magnitude(e, custom)
    except (ZeroDivisionError, OverflowError, ValueError):
        return v.discard("domain-error")
    if not math.isfinite(exp_base) or abs(exp_base) > 1e200 or not math.isfinite(mag_base) or mag_base > 1e200:
        return v.discard("domain-error")
    if case.get("wrong_unit"):
        try:
            if case["as_node"]:
                env = make_env(custom, f'result float = ("{text}") {case["unit"]}')
                r = env.data(Format.TUPLE)["result"]
            else:
                env = make_env(custom)
                with NumericalSolver(env) as s:
                    r = s.solve(text, case["unit"])
        except Exception:
            v.nt(True)
            v.label("requested_unit_of_other_dimension")
            return
        return v.fail("mismatch-accepted", f"expression {text!r} of dimension {case['dim']} evaluated for the unit "
                                           f"{case['unit']!r} returned {r!r}")
    exp = exp_base / F(case["unit"], custom)
    how = f"expression {text!r} in {case['unit']!r} ({'node value' if case['as_node'] else 'NumericalSolver'})"
    if case.get("prelude"):
        prelude(custom, "numeric", text, case["unit"])
        v.label("same_text_solved_before_under_other_unit_definitions")
    try:
        if case["as_node"]:
            u = f" {case['unit']}" if case["unit"] else ""
            ntype = "int" if case.get("int_node") else "float"
            env = make_env(custom, f'result {ntype} = ("{text}"){u}')
            got = env.data(Format.TUPLE)["result"]
            got = got[0] if isinstance(got, tuple) else got
            how = f'node: result {ntype} = ("{text}"){u}'
            if ntype == "int":
                # an integer node holds the nearest integer of the result (ties are not compared), of either sign
                frac = abs(exp - math.floor(exp) - 0.5)
                if not abs(exp) < 1e15 or frac < 1e-6:
                    return v.discard("int-node-tie-or-huge")
                if not isinstance(got, (int, np.integer)) or int(got) != int(round(exp)):
                    return v.fail("numeric-value", f"{how} = {got!r}, the result is {exp!r} {case['unit'] or ''} "
                                                   f"(nearest integer {int(round(exp))})")
                v.nt(exp < 0 or bool(case["unit"]))
                v.label("numeric", "int_node", "negative_result" if exp < 0 else "positive_result")
                return
        else:
            env = make_env(custom)
            with NumericalSolver(env) as s:
                if case.get("after_failed"):
                    # the same solver object was first given an expression it had to refuse part-way
                    bad = {"ref": f"{text} - {{?undefined_node}}", "dim": f"1 m + {text} + 1 cd + 2 K"}[case["after_failed"]]
                    try:
                        s.solve(bad, case["unit"])
                    except Exception:
                        pass
                    v.label("same_solver_after_a_refused_expression")
                got = s.solve(text, case["unit"])
            how = f"NumericalSolver.solve({text!r}, {case['unit']!r})" + (" [after a refused expression on the same solver]"
                                                                        if case.get("after_failed") else "")
        if hasattr(got, "value") and callable(got.value):
            got = got.value()
    except Exception as ex:
        return v.fail("numeric-raised", f"{how} (custom unit defined: {custom}) raised {ex!r}; expected {exp!r}")
    try:
        ok = close(float(got), exp, 1e-9, 1e-12 * max(1.0, abs(exp), mag_base / abs(F(case["unit"], custom))))
    except Exception:
        ok = False
    if not ok:
        return v.fail("numeric-value", f"{how} = {got!r}, reference gives {exp!r} {case['unit'] or ''}")
    s_ = stats(e)
    prios = {("md" if o in "*/" else "as" if o in "+-" else "fn") for o in s_["ops"]}
    v.nt((len(s_["ops"]) >= 3 and len(prios) >= 2 and len(s_["units"]) >= 2) or s_["custom"] or
         (case["unit"] or "").startswith("[") or (case["dim"] == "none" and case["unit"]))
    v.label("numeric", "as_node" if case["as_node"] else "solver")
    if e[0] == "chain" and e[1][0] == "lneg":
        v.label("leading_blank_separated_minus")
    if s_["custom"] or (case["unit"] or "").startswith("["):
        v.label("custom_unit")
    if custom:
        v.label("env_has_custom_unit")
    if case["dim"] == "none" and case["unit"]:
        v.label("dimensionless_result_in_scaled_unit")


def render_logic(t, custom):
    k = t[0]
    if k == "or":
        return " || ".join(" && ".join(render_logic(x, custom) for x in ands) for ands in t[1])
    if k == "par":
        return "(" + render_logic(t[1], custom) + ")"
    if k == "lit":
        return "true" if t[1] else "false"
    if k == "bref":
        return "{?" + t[1] + "}"
    if k == "not":
        return "~" + render_logic(t[1], custom)
    if k == "defined":
        return ("~" if t[2] else "") + "!{?" + t[1] + "}"
    if k == "cmpn":
        return "{?" + t[1] + "} " + t[2] + " {?" + t[3] + "}"
    _c, left, op, rel, dim, unit2, factor = t
    lv = evaluate(left, custom)
    if rel == "equal":
        # the very same number in the very same unit (no arithmetic on the way: != and the strict operators are exact)
        unit2 = left[2] if left[0] == "num" else NODES[left[1]][2]
        num_ = left[1] if left[0] == "num" else NODES[left[1]][1]
        return render(left) + f" {op} " + repr(float(num_)) + (f" {unit2}" if unit2 else "")
    elif rel == "equal_conv":
        rv = lv
    elif rel == "close":
        rv = lv * (1 + 1e-8)
    else:
        rv = lv * factor
    right_num = rv / F(unit2, custom)
    return render(left) + f" {op} " + repr(float(right_num)) + (f" {unit2}" if unit2 else "")


def eval_logic(t, custom):
    k = t[0]
    if k == "or":
        return any(all(eval_logic(x, custom) for x in ands) for ands in t[1])
    if k == "par":
        return eval_logic(t[1], custom)
    if k == "lit":
        return t[1]
    if k == "bref":
        return NODES[t[1]][1]
    if k == "not":
        return not eval_logic(t[1], custom)
    if k == "defined":
        d = t[1] in NODES
        return (not d) if t[2] else d
    if k == "cmpn":
        rel, op = t[4], t[2]
        return {"eq": {"==": True, "!=": False, "<": False, ">": False, "<=": True, ">=": True},
                "lt": {"==": False, "!=": True, "<": True, ">": False, "<=": True, ">=": False},
                "gt": {"==": False, "!=": True, "<": False, ">": True, "<=": False, ">=": True}}[rel][op]
    _c, left, op, rel, dim, unit2, factor = t
    lv = evaluate(left, custom)
    if rel in ("equal", "equal_conv", "close"):
        return {"==": True, "!=": False, "<": False, ">": False, "<=": True, ">=": True}[op]
    rv = lv * factor
    return {"==": False, "!=": True, "<": lv < rv, ">": lv > rv, "<=": lv < rv, ">=": lv > rv}[op]


def fragile(t):
    """strict operators at an equality reached through a conversion are decided by float rounding"""
    k = t[0]
    if k == "or":
        return any(fragile(x) for ands in t[1] for x in ands)
    if k in ("par", "not"):
        return fragile(t[1])
    if k == "cmp":
        return t[3] == "equal_conv" and t[2] in ("<", ">")
    return False


def logic_stats(t, acc=None):
    acc = acc if acc is not None else {"neg": False, "defined": False, "ncmp": 0, "custom": False, "far_from_one": False,
                                       "close": False, "int_nodes": False}
    k = t[0]
    if k == "or":
        for ands in t[1]:
            for x in ands:
                logic_stats(x, acc)
    elif k == "par":
        logic_stats(t[1], acc)
    elif k == "not":
        if t[1][0] == "par":
            acc["neg"] = True
        logic_stats(t[1], acc)
    elif k == "defined":
        acc["defined"] = True
    elif k == "cmpn":
        acc["ncmp"] += 1
        acc["int_nodes"] = True
    elif k == "cmp":
        acc["ncmp"] += 1
        if t[1][0] == "num" and not 1e-2 <= abs(t[1][1]) <= 1e3:
            acc["far_from_one"] = True
        if t[3] == "close":
            acc["close"] = True
        if t[1][0] == "num" and (t[1][2] or "").startswith("["):
            acc["custom"] = True
    return acc


def check_logical(case, v):
    from scinumtools.dip import Format
    from scinumtools.dip.solvers import LogicalSolver
    custom = case["custom"]
    t = case["tree"]
    if fragile(t):
        return v.discard("float-fragile-boundary")
    text = render_logic(t, custom)
    exp = bool(eval_logic(t, custom))
    how = f"logical expression {text!r} ({'node value' if case['as_node'] else 'LogicalSolver'})"
    if case.get("prelude"):
        prelude(custom, "logical", text)
    try:
        if case["as_node"]:
            env = make_env(custom, f'result bool = ("{text}")')
            got = env.data(Format.VALUE)["result"]
            how = f'node: result bool = ("{text}")'
        else:
            env = make_env(custom)
            with LogicalSolver(env) as s:
                got = s.solve(text).value
            how = f"LogicalSolver.solve({text!r}).value"
    except Exception as ex:
        return v.fail("logical-raised", f"{how} (custom unit defined: {custom}) raised {ex!r}; expected {exp}")
    if bool(got) != exp or not isinstance(got, (bool,)) and type(got).__name__ not in ("bool_", "bool"):
        return v.fail("logical-value", f"{how} = {got!r}, direct evaluation gives {exp}")
    s_ = logic_stats(t)
    v.nt(s_["neg"] or s_["defined"] or s_["custom"] or s_["ncmp"] >= 2 or s_["int_nodes"])
    v.label("logical", "as_node" if case["as_node"] else "solver")
    if s_["neg"]:
        v.label("negated_expression")
    if s_["defined"]:
        v.label("definedness")
    if s_["far_from_one"]:
        v.label("magnitude_far_from_one")
    if s_["close"]:
        v.label("equal_within_1e-8")
    if s_["int_nodes"]:
        v.label("int_node_vs_int_node_other_unit")


def check_template(case, v):
    from scinumtools.dip import Format
    from scinumtools.dip.solvers import TemplateSolver
    text = ""
    exp = ""
    for p in case["parts"]:
        if p[0] == "text":
            text += p[1]
            exp += p[1]
            continue
        _r, ref, sl, f = p
        text += "{{?" + ref + "}" + (f"[{sl}]" if sl else "") + (f":{f}" if f else "") + "}"
        val = MAT if ref == "mat" else NODES[ref][1]
        if sl:
            if ref == "mat":
                i, j = [int(x) for x in sl.split(",")]
                val = val[i][j]
            elif ":" in sl:
                a, b = sl.split(":")
                val = val[(int(a) if a else None):(int(b) if b else None)]
            else:
                val = val[int(sl)]
        exp += format(val, f) if f else str(val)
    if "\n" in text and case["as_node"]:
        return v.discard("newline-in-inline-template")
    how = f"template {text!r}"
    try:
        if case["as_node"]:
            env = make_env(False, f"result str = ('{text}')")
            got = env.data(Format.VALUE)["result"]
            how = f"node: result str = ('{text}')"
        else:
            env = make_env(False)
            with TemplateSolver(env) as s:
                got = s.solve(text)
            how = f"TemplateSolver.solve({text!r})"
    except Exception as ex:
        return v.fail("template-raised", f"{how} raised {ex!r}; expected {exp!r}")
    if got != exp:
        return v.fail("template-value", f"{how} = {got!r}, Python format gives {exp!r}")
    v.nt(any(p[0] == "ref" and (p[2] or p[3]) for p in case["parts"]))
    v.label("template", "as_node" if case["as_node"] else "solver")


def check(case):
    v = Verdict()
    try:
        {"numeric": check_numeric, "logical": check_logical, "template": check_template}[case["kind"]](case, v)
    finally:
        if not R.tables_pristine():
            leaked = [k for k in R.snapshot()["unit_keys"] if k not in R.PRISTINE["unit_keys"]]
            R.restore_tables()
            if not v.violations:
                v.fail("units-left-registered", f"after the case the process-wide unit table still holds {leaked}: "
                                                f"{case!r}"[:900])
    return v
