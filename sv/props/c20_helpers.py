"""C20 — table, row and grid helpers behave like their simple models."""
import collections

import numpy as np
from hypothesis import strategies as st

from ..core import Verdict

ID = "C20"
RULE = (
    'Cases are operation histories (ParameterTable keyed/unkeyed vs dict/list model; RowCollector vs list-of-rows '
    'model, list and array mode, with sort) drawn by Hypothesis as op lists, every (n<=40, ncols<=8, order, '
    'list/dict) DataPlotGrid size enumerated completely plus random larger ones, and random lists of item lists '
    'for DataCombination. After EVERY operation all public accessors are compared with the model. Non-trivial: '
    'table history with a delete or overwrite followed by positional access; collector history with a sort over '
    '>=3 rows or with ties in the sort column; grid with incomplete last row; combination of >=2 lists with >=2 '
    'items each. Round 4: refused assignments (non-sequence values) must leave the table as it was; attribute '
    'access of absent keys; abandoned and interleaved enumerations. Later rounds: constructor rows given as '
    'dicts; exceptions raised by enumeration or sort are violations; unsigned and boolean columns. Round 8: '
    'dtype=str columns; list columns of mixed number types; refused rows (one value short, one too many, an '
    'undeclared key). Round 10: positions given as numpy integers; array mode: a pair of values in one slot, and '
    'collectors without declared columns whose first dict row is refused. Distinct = distinct canonical JSON of the whole case.'
)
ASSUMPTIONS = [
    "keys are non-empty identifier strings not shadowed by class attributes; values have as many entries as fields",
    "collector columns are type-homogeneous (int64-range ints, finite floats, NUL-free strings), as numpy storage requires",
    "tie order after sort is not prescribed (only the multiset of rows and monotonicity are checked)",
]
NT_FLOOR = 0.2
EXTRA_COVERAGE = {"exhaustive_subdomains": ["DataPlotGrid n in 0..40 x ncols in 1..8 x transpose x list/dict"]}

FIELDS = ["p", "q", "r", "value", "unit"]
KEYS = ["a", "b", "c", "x1", "alpha", "B", "k_2", "Zz", "n0", "w"]

# --------------------------------------------------------------------------- generators

val = st.one_of(st.integers(-5, 5), st.sampled_from(["", "u", "m/s", "x y"]), st.floats(-2, 2, allow_nan=False),
                st.booleans(), st.none())


@st.composite
def table_case(draw, keyed):
    nf = draw(st.integers(1, 4))
    fields = FIELDS[:nf]
    vals = st.lists(val, min_size=nf, max_size=nf)
    key = st.sampled_from(KEYS)
    idx = st.integers(0, 30)
    if keyed:
        op = st.one_of(
            st.tuples(st.just("append"), key, vals),
            st.tuples(st.just("set"), key, vals),
            st.tuples(st.just("del"), idx),
            st.tuples(st.just("get_key"), idx),
            st.tuples(st.just("get_pos"), idx),
            st.tuples(st.just("get_attr"), idx),
            # a position computed with numpy (np.argmin(...), an element of np.arange(...)) is a position too
            st.tuples(st.just("get_pos_np"), idx, st.sampled_from(["int64", "int32", "intp", "uint8"])),
            st.tuples(st.just("contains"), key),
            st.tuples(st.just("bad_set"), key, st.sampled_from([None, 5, 2.5])),     # a value that is not a sequence: refused
        )
        init = draw(st.lists(st.tuples(key, vals), max_size=3))
    else:
        op = st.one_of(
            st.tuples(st.just("append"), vals),
            st.tuples(st.just("del"), idx),
            st.tuples(st.just("get_pos"), idx),
        )
        init = draw(st.lists(vals, max_size=3))
    ops = draw(st.lists(op, min_size=1, max_size=25))
    return {"kind": "table", "keyed": keyed, "fields": fields, "init": [list(i) for i in init],
            "ops": [list(o) for o in ops]}


ints = st.integers(-2**62, 2**62) | st.integers(-3, 3)
floats = st.floats(allow_nan=False, allow_infinity=True, width=64) | st.sampled_from([0.0, 1.5, -1.5, 2.0])
strs = st.text(alphabet="abcXYZ 09_é", max_size=6) | st.sampled_from(["a", "b", "ab"])
uints = st.integers(0, 2**32 - 1) | st.integers(0, 3)
# a list column may hold numbers of different Python types: sorting permutes them, it does not convert them
mixed = st.sampled_from([1, 2.5, 2 ** 53 + 1, 7, 0.5, 2 ** 63 + 1, -3, 2 ** 53, 4.0])
COLT = {"i": ints, "f": floats, "s": strs, "u": uints, "b": st.booleans(), "m": mixed}


@st.composite
def rows_case(draw):
    ncol = draw(st.integers(1, 4))
    names = ["c%d" % i for i in range(ncol)]
    types = [draw(st.sampled_from("iffssubm")) for _ in names]
    array = draw(st.booleans())
    if array:
        types = ["f" if t == "m" else t for t in types]
    lazy = (not array) and draw(st.integers(0, 5)) == 0   # columns created by the first dict row
    row = st.tuples(*[COLT[t] for t in types]).map(list)
    op = st.one_of(
        st.tuples(st.just("append_list"), row),
        st.tuples(st.just("append_list"), row),
        st.tuples(st.just("append_dict"), row, st.permutations(list(range(ncol)))),
        st.tuples(st.just("sort"), st.integers(0, ncol - 1), st.booleans()),
        # a row the collector has to refuse (one value short, one too many): it must leave the rows as they were
        st.tuples(st.just("bad_append"), row, st.sampled_from(["short", "long", "extra_key"])),
        # array mode: a cell that is itself a pair of values cannot be stored in one slot of a column; whatever the
        # collector does with such a row, the columns have to stay equally long and the earlier rows in place
        st.tuples(st.just("seq_cell"), row, st.integers(0, ncol - 1)),
    )
    init = draw(st.lists(row, max_size=4))
    ops = draw(st.lists(op, min_size=1, max_size=16))
    if lazy:
        init = []
        ops = [["append_dict", draw(row), list(range(ncol))]] + [list(o) for o in ops]
    # rows handed to the constructor may be lists or dicts, mixed
    init_dict = [draw(st.integers(0, 2)) == 0 for _ in init]
    return {"kind": "rows", "names": names, "types": types, "array": array, "lazy": lazy, "init": init,
            # string columns of an array collector declared as in the documentation (dtype=str) or with a width
            "sdtype": draw(st.sampled_from(["U16", "str"])),
            "ops": [list(o) for o in ops], "init_dict": init_dict}


@st.composite
def lazy_array_case(draw):
    """A collector without declared columns in array mode: the first accepted dict row names the columns."""
    keysets = [["a", "b"], ["b", "a"], ["a", "c"], ["x"], ["a", "b", "c"]]
    cell = st.floats(-1e6, 1e6, allow_nan=False) | st.integers(-5, 5).map(float)
    rows = []
    for _ in range(draw(st.integers(1, 6))):
        ks = draw(st.sampled_from(keysets))
        cells = [draw(cell) for _k in ks]
        if draw(st.integers(0, 2)) == 0:
            cells[draw(st.integers(0, len(ks) - 1))] = draw(st.sampled_from(["abc", "n/a", "one"]))
        rows.append([list(ks), cells])
    return {"kind": "lazy_array", "rows": rows}


@st.composite
def grid_case(draw):
    return {"kind": "grid", "n": draw(st.integers(0, 400)), "ncols": draw(st.integers(1, 30)),
            "transpose": draw(st.booleans()), "dict": draw(st.booleans())}


item = st.integers(-3, 3) | st.sampled_from(["a", "b", "", "cd"])
comb_case = st.tuples(st.lists(st.lists(item, max_size=4), max_size=4), st.booleans()).map(
    lambda x: {"kind": "comb", "items": x[0], "partial": x[1]})


def strategies(tier):
    return {
        "table_keyed": (table_case(True), 1500, 40000),
        "table_list": (table_case(False), 500, 10000),
        "rows": (rows_case(), 1500, 40000),
        "rows_lazy_array": (lazy_array_case(), 400, 8000),
        "grid_random": (grid_case(), 500, 10000),
        "comb": (comb_case, 800, 20000),
    }


def exhaustive(tier, shard, nshards):
    i = 0
    for n in range(0, 41):
        for ncols in range(1, 9):
            for tr in (False, True):
                for d in (False, True):
                    if i % nshards == shard:
                        yield {"kind": "grid", "n": n, "ncols": ncols, "transpose": tr, "dict": d}
                    i += 1


# --------------------------------------------------------------------------- oracles

def _rec_eq(rec, fields, vals):
    exp = dict(zip(fields, vals))
    if list(rec.keys()) != list(fields):
        return f"record keys {list(rec.keys())} != {fields}"
    if rec.data() != exp:
        return f"record data {rec.data()!r} != {exp!r}"
    for f in fields:
        if rec[f] != exp[f] and not (rec[f] is exp[f]):
            return f"record[{f}] {rec[f]!r} != {exp[f]!r}"
        if getattr(rec, f) != exp[f]:
            return f"record.{f} {getattr(rec, f)!r} != {exp[f]!r}"
    return None


def check_table(case, v):
    from scinumtools import ParameterTable
    fields = case["fields"]
    keyed = case["keyed"]
    if keyed:
        model = collections.OrderedDict()
        for k, vals in case["init"]:
            model[k] = vals
        t = ParameterTable(list(fields), {k: vals for k, vals in case["init"]} if case["init"] else None, keys=True)
        # dict(init) collapses duplicate keys the same way the model does (last wins, first position kept)
    else:
        model = [vals for vals in case["init"]]
        t = ParameterTable(list(fields), [vals for vals in case["init"]] if case["init"] else None)
    mutated = False
    nt = False

    def invariant(step):
        if len(t) != len(model):
            return v.fail("table-len", f"step {step}: len {len(t)} != {len(model)}")
        if t.shape() != (len(model), len(fields)):
            return v.fail("table-shape", f"step {step}: shape {t.shape()}")
        if keyed:
            if list(t.keys()) != list(model.keys()):
                return v.fail("table-keys", f"step {step}: keys {list(t.keys())} != {list(model.keys())}")
            items = list(t.items())
            if [k for k, _ in items] != list(model.keys()):
                return v.fail("table-items-order", f"step {step}: items keys {[k for k, _ in items]} != {list(model)}")
            for (k, rec), (mk, mv) in zip(items, model.items()):
                e = _rec_eq(rec, fields, mv)
                if e:
                    return v.fail("table-items", f"step {step}: key {k}: {e}")
            exp = {k: dict(zip(fields, mv)) for k, mv in model.items()}
            got = t.data()
            if got != exp or list(got.keys()) != list(exp.keys()):
                return v.fail("table-data", f"step {step}: data {got!r} != {exp!r}")
            for pos, (mk, mv) in enumerate(model.items()):
                try:
                    rec = t[pos]
                except Exception as e:
                    return v.fail("table-pos", f"step {step}: t[{pos}] raised {e!r}")
                e = _rec_eq(rec, fields, mv)
                if e:
                    return v.fail("table-pos", f"step {step}: t[{pos}] (key {mk}): {e}")
                e = _rec_eq(t[mk], fields, mv)
                if e:
                    return v.fail("table-key", f"step {step}: t[{mk!r}]: {e}")
                try:
                    e = _rec_eq(getattr(t, mk), fields, mv)
                except Exception as ex:
                    return v.fail("table-get_attr", f"step {step}: t.{mk} raised {ex!r}")
                if e:
                    return v.fail("table-get_attr", f"step {step}: t.{mk}: {e}")
            for k in KEYS:
                # a key that is not (or no longer) in the table is not reachable as an attribute either
                if k not in model:
                    try:
                        rec = getattr(t, k)
                    except Exception:
                        continue
                    return v.fail("table-get_attr", f"step {step}: t.{k} returns {rec!r} although {k!r} is not a key "
                                                    f"(keys: {list(model)})")
        else:
            items = list(t.items())
            if [k for k, _ in items] != list(range(len(model))):
                return v.fail("table-items-order", f"step {step}: items index {[k for k, _ in items]}")
            for (k, rec), mv in zip(items, model):
                e = _rec_eq(rec, fields, mv)
                if e:
                    return v.fail("table-items", f"step {step}: index {k}: {e}")
            exp = [dict(zip(fields, mv)) for mv in model]
            if t.data() != exp:
                return v.fail("table-data", f"step {step}: data {t.data()!r} != {exp!r}")
        return None

    invariant("init")
    if v.violations:
        return
    for step, op in enumerate(case["ops"]):
        name = op[0]
        if keyed:
            keys = list(model.keys())
            if name in ("append", "set"):
                _, k, vals = op
                if k in model:
                    mutated = True
                    v.label("overwrite")
                if name == "append":
                    t.append(k, vals)
                else:
                    t[k] = vals
                model[k] = vals
            elif name == "del":
                if not keys:
                    continue
                k = keys[op[1] % len(keys)]
                del t[k]
                del model[k]
                mutated = True
                v.label("delete")
            elif name in ("get_key", "get_pos", "get_attr"):
                if not keys:
                    continue
                pos = op[1] % len(keys)
                k = keys[pos]
                try:
                    rec = t[k] if name == "get_key" else (t[pos] if name == "get_pos" else getattr(t, k))
                except Exception as e:
                    return v.fail("table-" + name, f"step {step}: raised {e!r}")
                e = _rec_eq(rec, fields, model[k])
                if e:
                    return v.fail("table-" + name, f"step {step}: {e}")
                if mutated and name == "get_pos":
                    nt = True
            elif name == "get_pos_np":
                if not keys:
                    continue
                pos = op[1] % len(keys)
                npos = getattr(np, op[2])(pos)
                try:
                    rec = t[npos]
                except Exception as e:
                    return v.fail("table-get_pos", f"step {step}: t[np.{op[2]}({pos})] raised {e!r} although t[{pos}] is "
                                                   f"the record of key {keys[pos]!r}")
                e = _rec_eq(rec, fields, model[keys[pos]])
                if e:
                    return v.fail("table-get_pos", f"step {step}: t[np.{op[2]}({pos})]: {e}")
                v.label("position_given_as_numpy_integer")
                if mutated:
                    nt = True
            elif name == "bad_set":
                try:
                    if step % 2:
                        t[op[1]] = op[2]
                    else:
                        t.append(op[1], op[2])
                except Exception:
                    v.label("refused_assignment")      # the table must be what it was (checked by the invariant below)
                    mutated = True
                else:
                    return v.discard("non-sequence value accepted (not specified)")
            elif name == "contains":
                if (op[1] in t) != (op[1] in model):
                    return v.fail("table-contains", f"step {step}: {op[1]!r} in t = {op[1] in t}")
        else:
            if name == "append":
                t.append(op[1])
                model.append(op[1])
            elif name == "del":
                if not model:
                    continue
                pos = op[1] % len(model)
                del t[pos]
                del model[pos]
                mutated = True
                v.label("delete")
            elif name == "get_pos":
                if not model:
                    continue
                pos = op[1] % len(model)
                e = _rec_eq(t[pos], fields, model[pos])
                if e:
                    return v.fail("table-get_pos", f"step {step}: {e}")
                if mutated:
                    nt = True
        invariant(step)
        if v.violations:
            return
    # the invariant itself does positional access after every mutation
    v.nt(nt or mutated)
    v.label("table_keyed" if keyed else "table_list")


def _norm(x):
    if isinstance(x, (np.generic,)):
        x = x.item()
    if isinstance(x, np.str_):
        x = str(x)
    return x


def check_rows(case, v):
    from scinumtools import RowCollector
    names, types, array = case["names"], case["types"], case["array"]
    dt = {"i": dict(dtype=np.int64), "f": dict(dtype=float),
          "s": dict(dtype=str) if case.get("sdtype") == "str" else dict(dtype="U16"), "u": dict(dtype=np.uint32),
          "b": dict(dtype=bool)}
    rows0 = [({n: r[j] for j, n in reversed(list(enumerate(names)))} if d else list(r))
             for r, d in zip(case["init"], case.get("init_dict") or [False] * len(case["init"]))]
    if case["lazy"]:
        # another default-constructed collector, fed other column names, lived in this process before
        earlier = RowCollector()
        earlier.append({"zz0": 1, "zz1": 2.5})
        rc = RowCollector()
    elif array:
        rc = RowCollector({n: dt[t] for n, t in zip(names, types)}, rows=rows0 or None, array=True)
    else:
        rc = RowCollector(list(names), rows=rows0 or None)
    if any(case.get("init_dict") or []):
        v.label("constructor_rows_with_dicts")
    model = [list(r) for r in case["init"]]
    nt = False

    def current_rows():
        d = rc.to_dict()
        if list(d.keys()) != names:
            return None, f"columns {list(d.keys())} != {names}"
        cols = [[_norm(x) for x in list(d[n])] for n in names]
        ln = {len(c) for c in cols}
        if len(ln) != 1:
            return None, f"ragged columns {[len(c) for c in cols]}"
        return [list(r) for r in zip(*cols)], None

    def same(a, b):
        return type(a) is type(b) and (a == b)

    for step, op in enumerate(case["ops"]):
        if op[0] == "append_list":
            rc.append(list(op[1]))
            model.append(list(op[1]))
        elif op[0] == "append_dict":
            order = op[2]
            try:
                rc.append({names[j]: op[1][j] for j in order})
            except Exception as ex:
                return v.fail("rows-raised", f"step {step}: append({ {names[j]: op[1][j] for j in order}!r}) raised {ex!r} "
                                             f"(columns {names}, lazy={case['lazy']})")
            model.append(list(op[1]))
            v.label("dict_row")
        elif op[0] == "bad_append":
            bad = list(op[1])[:-1] if op[2] == "short" else list(op[1]) + [op[1][0]]
            if op[2] == "extra_key":
                # a dict row with every declared column and one that was never declared (a misspelt name)
                bad = {n_: x_ for n_, x_ in zip(names, op[1])}
                bad["Undeclared"] = op[1][0]
            try:
                rc.append(bad)
            except Exception:
                v.label("refused_row_" + op[2])
                nt = True
            else:
                return v.fail("rows-accepted", f"step {step}: append({bad!r}) to {len(names)} column(s) was accepted "
                                               f"(rows now {current_rows()[0]!r})")
        elif op[0] == "seq_cell":
            if not array:
                continue
            bad = list(op[1])
            bad[op[2]] = (bad[op[2]], bad[op[2]])
            try:
                rc.append(bad)
            except Exception:
                v.label("refused_row_seq_cell")
                nt = True
            else:
                rows, err = current_rows()
                return v.fail("rows-accepted", f"step {step}: append({bad!r}) (a pair in the slot of column "
                                               f"{names[op[2]]}) was accepted: {err or rows!r}")
        elif op[0] == "sort":
            col, rev = op[1], op[2]
            try:
                rc.sort(names[col], reverse=rev)
            except Exception as ex:
                return v.fail("rows-raised", f"step {step}: sort({names[col]!r}, reverse={rev}) on a column of type "
                                             f"{case['types'][col]!r} (array={array}) raised {ex!r}")
            rows, err = current_rows()
            if err:
                return v.fail("rows-shape", f"step {step}: {err}")
            key = [r[col] for r in rows]
            for x, y in zip(key, key[1:]):
                if (x < y) if rev else (x > y):
                    return v.fail("rows-sort-order", f"step {step}: column {names[col]} not "
                                  f"{'non-increasing' if rev else 'non-decreasing'}: {key!r}")
            a = sorted(repr(r) for r in rows)
            b = sorted(repr(r) for r in model)
            if a != b:
                return v.fail("rows-sort-multiset", f"step {step}: rows after sort {rows!r} are not a permutation of {model!r}")
            ties = len(set(map(repr, key))) < len(key)
            if len(model) >= 3 or ties:
                nt = True
            if ties:
                v.label("sort_ties")
            v.label("sort_array" if array else "sort_list")
            model = rows
        rows, err = current_rows()
        if err:
            return v.fail("rows-shape", f"step {step}: {err}")
        if len(rows) != len(model) or any(not same(x, y) for r, m in zip(rows, model) for x, y in zip(r, m)):
            return v.fail("rows-content", f"step {step} ({op[0]}): rows {rows!r} != model {model!r}")
        if len(rc) != len(model) or rc.size() != len(model) or rc.shape() != (len(names), len(model)):
            return v.fail("rows-size", f"step {step}: len {len(rc)} size {rc.size()} shape {rc.shape()}")
        for j, n in enumerate(names):
            colv = [_norm(x) for x in list(rc[n])]
            if colv != [m[j] for m in model]:
                return v.fail("rows-getitem", f"step {step}: rc[{n!r}] = {colv!r}")
    v.nt(nt)
    v.label("rows_array" if array else "rows_list")


def check_lazy_array(case, v):
    """Model: no columns until a row is accepted; a row is accepted iff every cell is a number and (once columns exist)
    its keys are exactly the columns; a refused row leaves no trace - in particular no columns."""
    from scinumtools import RowCollector
    rc = RowCollector(array=True)
    cols, model = None, []
    refused_first = False
    for step, (ks, cells) in enumerate(case["rows"]):
        numeric = all(isinstance(c, float) for c in cells)
        ok = numeric and (cols is None or sorted(ks) == sorted(cols))
        try:
            rc.append(dict(zip(ks, cells)))
            accepted = True
        except Exception as ex:
            accepted, why = False, repr(ex)
        if accepted and not ok:
            return v.fail("rows-accepted", f"step {step}: append({dict(zip(ks, cells))!r}) accepted (columns {cols})")
        if not accepted and ok:
            return v.fail("rows-raised", f"step {step}: append({dict(zip(ks, cells))!r}) to a collector with columns {cols} "
                                         f"(earlier rows of this history: {case['rows'][:step]!r}) raised {why}")
        if accepted:
            if cols is None:
                cols = list(ks)
                if refused_first:
                    v.nt(True)
                    v.label("first_row_accepted_after_a_refused_first_row")
            model.append([dict(zip(ks, cells))[c] for c in cols])
        elif cols is None:
            refused_first = True
        want = (len(cols or []), len(model))
        if rc.shape() != want or len(rc) != len(model):
            return v.fail("rows-size", f"step {step}: shape {rc.shape()} len {len(rc)}, model {want} "
                                       f"(history {case['rows'][:step + 1]!r})")
        d = rc.to_dict()
        if list(d.keys()) != list(cols or []):
            return v.fail("rows-shape", f"step {step}: columns {list(d.keys())} != {cols}")
        got = [list(map(float, d[c])) for c in (cols or [])]
        if got != [list(col) for col in zip(*model)] and model:
            return v.fail("rows-content", f"step {step}: columns {got!r} != rows {model!r}")
    v.label("rows_lazy_array")


def check_grid(case, v):
    from scinumtools import DataPlotGrid
    n, ncols, tr = case["n"], case["ncols"], case["transpose"]
    data = {f"k{i}": i * 10 for i in range(n)} if case["dict"] else [i * 10 for i in range(n)]
    g = DataPlotGrid(data, ncols=ncols)
    nrows = -(-n // ncols)
    if g.nrows != nrows or g.ncols != ncols or g.ndata != n:
        return v.fail("grid-dims", f"nrows {g.nrows} ncols {g.ncols} ndata {g.ndata}; expected {nrows},{ncols},{n}")
    cells = []
    idx = []
    for it in g.items(transpose=tr):
        if case["dict"]:
            i, r, c, k, d = it
            if k != f"k{i}" or d != i * 10:
                return v.fail("grid-data", f"item {it!r} does not carry data item {i}")
        else:
            i, r, c, d = it
            if d != i * 10:
                return v.fail("grid-data", f"item {it!r} does not carry data item {i}")
        idx.append(i)
        cells.append((r, c))
    if idx != list(range(n)):
        return v.fail("grid-index", f"data indices {idx}")
    miss = [(r, c) for _, r, c in g.items(missing=True, transpose=tr)]
    allc = cells + miss
    exp = {(r, c) for r in range(nrows) for c in range(ncols)}
    if len(allc) != len(set(allc)):
        dup = [x for x, k in collections.Counter(allc).items() if k > 1]
        return v.fail("grid-duplicate", f"cells assigned twice: {dup[:5]} (n={n}, ncols={ncols}, transpose={tr})")
    if set(allc) != exp:
        return v.fail("grid-cover", f"cells {sorted(set(allc) ^ exp)[:6]} differ from the {nrows}x{ncols} grid")
    if any(type(r) is not int or type(c) is not int for r, c in allc):
        return v.fail("grid-type", "non-int cell index")
    v.nt(n % ncols != 0)
    v.label("grid_T" if tr else "grid_N", "grid_incomplete" if n % ncols else "grid_full")


def check_comb(case, v):
    from scinumtools import DataCombination
    items = case["items"]
    exp_k, exp_v = [()], [()]
    for lst in items:
        exp_k = [k + (i,) for k in exp_k for i in range(len(lst))]
        exp_v = [p + (x,) for p in exp_v for x in lst]
    dc = DataCombination(items)
    if case.get("partial") and exp_v:
        # an enumeration that is abandoned, and two that run interleaved, must not change what later ones deliver
        try:
            it1 = iter(dc.items())
            next(it1)
            a, b = iter(dc.values()), iter(dc.keys())
            next(a)
            next(b)
            if len(exp_v) > 1:
                next(a)
        except StopIteration:
            return v.fail("comb-values", f"an enumeration of {items!r} ended early while another one was abandoned / running "
                                         f"(expected {len(exp_v)} combinations)")
        v.label("comb_after_partial_iteration")
    try:
        got_v = list(dc.values())
        got_k = list(dc.keys())
        got_i = list(dc.items())
    except Exception as e:
        return v.fail("comb-values", f"enumerating DataCombination({items!r}) raised {e!r}")
    if got_v != exp_v:
        return v.fail("comb-values", f"values {got_v[:8]!r} != {exp_v[:8]!r}")
    if got_k != exp_k:
        return v.fail("comb-keys", f"keys {got_k[:8]!r} != {exp_k[:8]!r}")
    if got_i != list(zip(exp_k, exp_v)):
        return v.fail("comb-items", f"items {got_i[:8]!r}")
    v.nt(sum(1 for lst in items if len(lst) >= 2) >= 2)
    v.label("comb")


def check(case):
    v = Verdict()
    {"table": check_table, "rows": check_rows, "grid": check_grid, "comb": check_comb, "lazy_array": check_lazy_array}[case["kind"]](case, v)
    return v
