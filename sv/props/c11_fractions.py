"""C11 — number and mass fractions are normalised and mutually consistent."""
import collections

import numpy as np
from hypothesis import strategies as st

from ..core import Verdict, close
from . import c10_formula as F10

ID = "C11"
RULE = (
    'Mixtures of 1-6 distinct substances (curated formulas plus generated ones) with positive proportions in '
    "[1e-3,1e3], both normalisation modes, dict and '<...>' string construction, both isotope modes, optionally "
    'followed by add() of an existing or new component, k*material, or material+material with a shared component. '
    'Oracle: closed forms with component masses from the independent formula expansion of C10: number mode '
    "x=p/sum p, X=p m/sum p m; mass mode X=p/sum p, x=(p/m)/sum(p/m); 'sum' row = 100; scaling all p by c changes "
    'nothing; the material rebuilt from its reported X in mass mode reports the same x and X. Same for '
    'Substance.data_composite with atom counts. Non-trivial: >=2 components with distinct masses. Round 4: '
    'amounts in exponent notation, nucleons, Substance(proportion=p) alone and added to a Material. Later rounds: '
    'operands re-read after a sum; augmented sums (total += part); substances added to materials. Rounds 7-8: '
    'substance operands built from dictionaries, with whole and with fractional counts (strategy operand; known '
    'finding C11-K1). Distinct = distinct case JSON.'
)
ASSUMPTIONS = ["relative tolerance 1e-9 on fractions", "proportions are written with at most 6 significant decimal digits"]
NT_FLOOR = 0.4

POOL = ["H2O", "NaCl", "CO2", "N2", "O2", "Ar", "CH4", "Ca(OH)2", "C6H12O6", "MgCl2", "Fe2O3", "D2O", "H{1}2O", "U{235}",
        "He", "SiO2", "Al2(SO4)3", "NH3", "KCl", "Mo", "Ru", "Cl2", "B4C", "Mg", "Cu", "LiH", "O{18}2", "Na{+}", "Zn", "HCl",
        "[p]", "[n]", "[e]", "[p]", "[e]"]

prop = st.one_of(st.integers(1, 10 ** 6).map(lambda k: k / 1000.0), st.integers(1, 1000).map(float),
                 st.sampled_from([0.2, 0.3, 78.084, 20.946, 0.934, 0.036, 1.0, 50.0]))


@st.composite
def material_case(draw):
    n = draw(st.integers(1, 6))
    forms = draw(st.lists(st.sampled_from(POOL), min_size=n, max_size=n, unique=True))
    comps = [[f, draw(prop)] for f in forms]
    op = draw(st.sampled_from([None, None, "add_existing", "add_new", "rmul", "sum", "sum_substance", "isum"]))
    extra = None
    if op == "add_existing":
        extra = [draw(st.sampled_from(forms)), draw(prop)]
    elif op == "add_new":
        cand = [f for f in POOL if f not in forms]
        extra = [draw(st.sampled_from(cand)), draw(prop)]
    elif op == "sum_substance":
        # Material + Substance(formula, proportion=p): one more component with amount p
        extra = [draw(st.sampled_from(POOL)), draw(prop)]
    elif op == "rmul":
        extra = draw(st.sampled_from([2, 3, 0.5, 10, 7]))
    elif op in ("sum", "isum"):
        m = draw(st.integers(1, 3))
        f2 = draw(st.lists(st.sampled_from(POOL), min_size=m, max_size=m, unique=True))
        if draw(st.booleans()):
            f2[0] = forms[0]
            f2 = list(dict.fromkeys(f2))
        extra = [[f, draw(prop)] for f in f2]
    return {"kind": "material", "comps": comps, "norm": draw(st.sampled_from(["number", "mass"])),
            "natural": draw(st.booleans()), "form": draw(st.sampled_from(["dict", "string"])),
            "scale": draw(st.sampled_from([1e-3, 0.5, 2.0, 10.0, 1e3, 7.0, 1e-6, 1e-9, 1e-12, 1e9])), "op": op, "extra": extra,
            "subset": draw(st.lists(st.integers(0, 5), min_size=1, max_size=3, unique=True)),
            "numfmt": draw(st.sampled_from(["plain", "plain", "repr", "exp", "Exp"]))}


@st.composite
def substance_case(draw):
    its = draw(F10.items(draw(st.integers(0, 2))))
    # a substance may carry a proportion of its own (its share in a mixture): its element fractions do not depend on it
    return {"kind": "substance", "items": [[i, j] for i, j in its], "natural": draw(st.booleans()),
            "proportion": draw(st.sampled_from([None, None, 3, 0.5, 2.0]))}


@st.composite
def operand_case(draw):
    """Material + Substance(dict): the substance operand stands for exactly the atoms of its dictionary, also when a
    count is not a whole number (an alloy or a solid solution given by fractions)"""
    els = draw(st.lists(st.sampled_from(["C", "O", "Fe", "Ni", "H", "Si", "Al", "N"]), min_size=2, max_size=3, unique=True))
    whole = draw(st.booleans())
    counts = [draw(st.sampled_from([1, 2, 3] if whole else [1, 0.5, 0.25, 1.5, 2, 0.1])) for _ in els]
    if not whole and all(float(c).is_integer() for c in counts):
        counts[-1] = 0.5
    return {"kind": "operand", "base": [draw(st.sampled_from(["KCl", "H2O", "NaCl", "Ar"])), draw(prop)],
            "elems": [[e, c] for e, c in zip(els, counts)], "p": draw(prop), "norm": draw(st.sampled_from(["number", "mass"])),
            "natural": draw(st.booleans())}


def strategies(tier):
    return {"material": (material_case(), 1200, 30000), "substance": (substance_case(), 800, 20000),
            "operand": (operand_case(), 200, 3000)}


def _known_fractional_operand(case, kind, detail):
    # C11-K1: a substance with a count that is not a whole number > 1 cannot pass through its own .expr text, from
    # which Material + Substance rebuilds it (counts <= 1 are left out of the text, 'C1.5O' cannot be parsed)
    return case.get("kind") == "operand" and any(not float(c).is_integer() for _e, c in case["elems"])


KNOWN = {"C11-K1": _known_fractional_operand}


# --------------------------------------------------------------------------- reference

_MASS_CACHE = {}


def formula_mass(formula, natural):
    """Mass of one formula unit in Da, from the isotope table (independent parser for the curated pool)."""
    key = (formula, natural)
    if key not in _MASS_CACHE:
        counter = _parse_pool(formula)
        _MASS_CACHE[key] = sum(n * F10.species_data(el, A, q, natural)[3] for (el, A, q), n in counter.items())
    return _MASS_CACHE[key]


def _parse_pool(formula):
    """Tiny recursive-descent reader for the curated pool: El, El{A}, El{+}, counts, one level of groups."""
    import re
    tok = re.findall(r"\[[pne]\]|[A-Z][a-z]?|\{[^}]*\}|\d+|\(|\)", formula)
    pos = [0]

    def seq():
        c = collections.Counter()
        while pos[0] < len(tok) and tok[pos[0]] != ")":
            t = tok[pos[0]]
            if t == "(":
                pos[0] += 1
                inner = seq()
                pos[0] += 1
                n = 1
                if pos[0] < len(tok) and tok[pos[0]].isdigit():
                    n = int(tok[pos[0]])
                    pos[0] += 1
                for k, v in inner.items():
                    c[k] += v * n
            else:
                el = t
                pos[0] += 1
                A = q = None
                if pos[0] < len(tok) and tok[pos[0]].startswith("{"):
                    body = tok[pos[0]][1:-1]
                    m = re.match(r"(\d+)?([+-]\d*)?$", body)
                    if m.group(1):
                        A = int(m.group(1))
                    if m.group(2):
                        q = int(m.group(2)) if len(m.group(2)) > 1 else (1 if m.group(2) == "+" else -1)
                    pos[0] += 1
                n = 1
                if pos[0] < len(tok) and tok[pos[0]].isdigit():
                    n = int(tok[pos[0]])
                    pos[0] += 1
                c[(el, A, q or 0)] += n
        return c
    return seq()


def fractions(props, masses, norm):
    p = np.array(props, dtype=float)
    m = np.array(masses, dtype=float)
    if norm == "number":
        x = p / p.sum()
        X = p * m / (p * m).sum()
    else:
        X = p / p.sum()
        x = (p / m) / (p / m).sum()
    return 100 * x, 100 * X


def _fmt(p, style="plain"):
    """amount as written into a material string; 'repr' / 'exp' / 'Exp' may use exponent notation (2e-06, 2.5E+01)"""
    if style == "exp":
        return f"{float(p):.9e}"
    if style == "Exp":
        return f"{float(p):.9E}"
    s = repr(float(p))
    if style == "repr":
        return s
    if "e" in s or "E" in s:
        s = f"{p:.6f}".rstrip("0")
    if s.endswith("."):
        s += "0"
    return s


def as_written(comps, form, style):
    """the amounts the library is given: for a string expression, the numbers their text stands for"""
    if form == "dict":
        return [[f, p] for f, p in comps]
    return [[f, float(_fmt(p, style))] for f, p in comps]


def build(comps, norm, natural, form, style="plain"):
    from scinumtools.materials import Material, Norm
    nt = Norm.NUMBER_FRACTION if norm == "number" else Norm.MASS_FRACTION
    if form == "dict":
        return Material({f: p for f, p in comps}, natural=natural, norm_type=nt)
    return Material(" ".join(f"{_fmt(p, style)} <{f}>" for f, p in comps), natural=natural, norm_type=nt)


def read(mat, names):
    tab = mat.data_composite(quantity=False)
    keys = [k for k in tab.keys() if k not in ("avg", "sum")]
    if sorted(keys) != sorted(names):
        return None, None, None, f"components {keys} != {names}"
    x = [float(tab[n].x) for n in names]
    X = [float(tab[n].X) for n in names]
    return x, X, (float(tab["sum"].x), float(tab["sum"].X)), None


def _cmp(v, text, got, exp, what):
    for g, e in zip(got, exp):
        if not close(g, e, 1e-9, 1e-12):
            v.fail(what, f"{text}: {what} {got!r} != expected {list(map(float, exp))!r}")
            return False
    return True


def check_material(case, v):
    comps, norm, nat = case["comps"], case["norm"], case["natural"]
    style = case.get("numfmt", "plain")
    text = f"Material({case['form']}:{comps!r}, norm={norm}, natural={nat}, numbers written as {style})"
    try:
        mat = build(comps, norm, nat, case["form"], style)
        final = collections.OrderedDict((f, p) for f, p in as_written(comps, case["form"], style))
        op, extra = case["op"], case["extra"]
        if op in ("add_existing", "add_new"):
            mat.add(extra[0], extra[1])
            final[extra[0]] = final.get(extra[0], 0) + extra[1]
            text += f".add({extra[0]!r},{extra[1]})"
        elif op == "sum_substance":
            from scinumtools.materials import Substance
            import re as _re
            atoms_ = _re.findall(r"([A-Z][a-z]?)(\d*)", extra[0]) if _re.fullmatch(r"(?:[A-Z][a-z]?\d*)+", extra[0]) else []
            if len(atoms_) >= 2 and len({a for a, _n in atoms_}) == len(atoms_) and case.get("subset", [0])[0] % 2 == 0:
                # the operand built from a dictionary of its elements: it still stands for the whole formula
                d_ = {a: int(n_ or 1) for a, n_ in atoms_}
                mat = mat + Substance(d_, natural=nat, proportion=extra[1])
                text += f" + Substance({d_!r}, proportion={extra[1]})"
                v.label("substance_operand_built_from_dict")
            else:
                mat = mat + Substance(extra[0], natural=nat, proportion=extra[1])
                text += f" + Substance({extra[0]!r}, proportion={extra[1]})"
            final[extra[0]] = final.get(extra[0], 0) + extra[1]
        elif op == "rmul":
            mat = extra * mat
            for f in final:
                final[f] *= extra
            text = f"{extra} * " + text
        elif op == "isum":
            # the augmented spelling of a sum
            other = build(extra, norm, nat, "dict")
            mat += other
            for f, p in extra:
                final[f] = final.get(f, 0) + p
            text += f"; m += Material({extra!r})"
        elif op == "sum":
            other = build(extra, norm, nat, "dict")
            left = mat
            mat = left + other
            # the operands of a sum are what they were (they may share substances with the result)
            for who, obj, cs in (("left", left, list(final.items())), ("right", other, [(f, p) for f, p in extra])):
                nm = [f for f, _p in cs]
                x0, X0, s0, err0 = read(obj, nm)
                e0x, e0X = fractions([p for _f, p in cs], [formula_mass(f, nat) for f in nm], norm)
                if err0 or not (_cmp(v, text + f" + Material({extra!r}): the {who} operand afterwards", x0, e0x, "x") and
                                _cmp(v, text + f" + Material({extra!r}): the {who} operand afterwards", X0, e0X, "X")):
                    if err0:
                        v.fail("components", f"{text}: {who} operand after the sum: {err0}")
                    return
            for f, p in extra:
                final[f] = final.get(f, 0) + p
            text += f" + Material({extra!r})"
        names = list(final)
        masses = [formula_mass(f, nat) for f in names]
        x, X, sums, err = read(mat, names)
    except Exception as e:
        return v.fail("material-raised", f"{text} raised {e!r}")
    if err:
        return v.fail("components", f"{text}: {err}")
    ex, eX = fractions(list(final.values()), masses, norm)
    if not (_cmp(v, text, x, ex, "x") and _cmp(v, text, X, eX, "X")):
        return
    if not (close(sums[0], 100.0, 1e-9) and close(sums[1], 100.0, 1e-9)):
        return v.fail("sum-row", f"{text}: 'sum' row x={sums[0]!r} X={sums[1]!r}")
    # a selection of components reports the same fractions for the selected rows
    sub = [names[i] for i in sorted(set(i % len(names) for i in case.get("subset", [0])))]
    try:
        tab = mat.data_composite(components=list(sub), quantity=False)
        for nme in sub:
            i = names.index(nme)
            if not (close(float(tab[nme].x), ex[i], 1e-9, 1e-12) and close(float(tab[nme].X), eX[i], 1e-9, 1e-12)):
                return v.fail("subset", f"{text}.data_composite(components={sub}): {nme} x={tab[nme].x!r} X={tab[nme].X!r}, "
                                        f"expected x={ex[i]!r} X={eX[i]!r}")
        extra_rows = [k for k in tab.keys() if k not in sub and k not in ("avg", "sum")]
        if extra_rows:
            return v.fail("subset", f"{text}.data_composite(components={sub}) also lists {extra_rows}")
    except Exception as e:
        return v.fail("material-raised", f"{text}.data_composite(components={sub}) raised {e!r}")
    # scaling invariance
    c = case["scale"]
    try:
        scaled = [[f, p * c] for f, p in final.items()]
        if style != "plain" and case["form"] == "string":
            # the scaled amounts written out again (2e-06 <H2O> ...): repr() is exact
            m2 = build(scaled, norm, nat, "string", "repr")
            v.label("exponent_notation_in_string")
        else:
            m2 = build(scaled, norm, nat, "dict")
        x2, X2, s2, err = read(m2, names)
    except Exception as e:
        return v.fail("material-raised", f"scaled by {c}: {e!r}")
    if err or not (_cmp(v, text + f" scaled by {c}", x2, ex, "x-scaled") and _cmp(v, text, X2, eX, "X-scaled")):
        return
    # round trip number fractions -> reported X -> mass-mode material
    try:
        m3 = build([[f, Xi] for f, Xi in zip(names, (X if norm == "number" else x))],
                   "mass" if norm == "number" else "number", nat, "dict")
        x3, X3, s3, err = read(m3, names)
    except Exception as e:
        return v.fail("material-raised", f"round trip: {e!r}")
    if err or not (_cmp(v, text + " rebuilt from the reported fractions in the other mode", x3, ex, "x-roundtrip")
                   and _cmp(v, text, X3, eX, "X-roundtrip")):
        return
    v.nt(len(names) >= 2 and len({round(m, 6) for m in masses}) >= 2)
    v.label("material", norm, case["form"], "natural" if nat else "abundant", "op_" + str(case["op"]))


def check_substance(case, v):
    from scinumtools.materials import Substance
    text = F10.render(case["items"])
    nat = case["natural"]
    counter = F10.expand(case["items"])
    try:
        prop_ = case.get("proportion")
        sub = Substance(text, natural=nat) if prop_ is None else Substance(text, natural=nat, proportion=prop_)
        tab = sub.data_composite(quantity=False)
        comp = sub.data_components(quantity=False)
    except Exception as e:
        return v.fail("substance-raised", f"Substance({text!r}) raised {e!r}")
    keys = [k for k in tab.keys() if k not in ("avg", "sum")]
    # expected per library component key: count and mass from the reference, matched through the components table
    exp = F10.expected(counter, nat)
    n, m = [], []
    for k in keys:
        row = comp[k]
        key = (row.element, round(float(row.isotope), 6), int(row.ionisation))
        if key not in exp:
            return v.fail("components", f"Substance({text!r}): unexpected component {k} {key}")
        n.append(float(row.count))
        m.append(exp[key][1])
    ex, eX = fractions(n, m, "number")
    x = [float(tab[k].x) for k in keys]
    X = [float(tab[k].X) for k in keys]
    t = f"Substance({text!r}, natural={nat}" + (f", proportion={case['proportion']})" if case.get("proportion") else ")")
    if not (_cmp(v, t, x, ex, "x") and _cmp(v, t, X, eX, "X")):
        return
    if not (close(float(tab["sum"].x), 100.0, 1e-9) and close(float(tab["sum"].X), 100.0, 1e-9)):
        return v.fail("sum-row", f"{t}: 'sum' row x={tab['sum'].x!r} X={tab['sum'].X!r}")
    v.nt(len(keys) >= 2)
    v.label("substance")


def check_operand(case, v):
    from scinumtools.materials import Material, Substance, Norm
    nat, norm = case["natural"], case["norm"]
    base, p1 = case["base"]
    d = {e: c for e, c in case["elems"]}
    text = f"Material({{{base!r}: {p1}}}, norm={norm}, natural={nat}) + Substance({d!r}, proportion={case['p']})"
    v.info = {"text": text}
    v.nt(True)
    v.label("substance_operand_from_dict", "whole_counts" if all(float(c).is_integer() for c in d.values()) else "fractional_counts")
    m2 = sum(c * F10.species_data(e, None, 0, nat)[3] for e, c in d.items())
    ex, eX = fractions([p1, case["p"]], [formula_mass(base, nat), m2], norm)
    try:
        kw = dict(natural=nat) if norm == "number" else dict(natural=nat, norm_type=Norm.MASS_FRACTION)
        mat = Material({base: p1}, **kw) + Substance(dict(d), natural=nat, proportion=case["p"])
        tab = mat.data_composite(quantity=False)
        keys = [k for k in tab.keys() if k not in ("avg", "sum")]
        if len(keys) != 2 or keys[0] != base:
            return v.fail("operand-components", f"{text}: components {keys}")
        x, X = [float(tab[k].x) for k in keys], [float(tab[k].X) for k in keys]
    except Exception as e:
        return v.fail("operand-raised", f"{text} raised {e!r}")
    if not (_cmp(v, text, x, ex, "operand-x") and _cmp(v, text, X, eX, "operand-X")):
        return


def check(case):
    v = Verdict()
    {"material": check_material, "substance": check_substance, "operand": check_operand}[case["kind"]](case, v)
    return v
