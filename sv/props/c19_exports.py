"""C19 — exported configuration files carry the same values as the environment."""
import itertools
import json
import os
import re
import shutil
import subprocess
import tempfile

import numpy as np
from hypothesis import strategies as st

from ..core import Verdict, close, HarnessError
from ..refs import dip_ref as D
from ..refs import units_ref as R

ID = "C19"
RULE = (
    'Environments of 3-8 parameters (bool, (u)int16/32/64, float32/64/128, str; scalars and 1-3-D arrays; units; '
    "values at the width limits; floats that need 17 significant digits; strings with blanks, '#', braces, "
    'brackets, words that look like other literals and, as a separate class, quotes / $ / backslash; a none value '
    'for the back-ends that can express it) exported through every back-end with generated options (units on/off, '
    '#define / const selections, renaming on/off, select by query, by tags or by both together, optionally after '
    'another selection on the same exporter object); in two thirds of the cases ONE parsed environment serves all '
    'back-ends of the case, in a rotated order, and the first back-end is exported once more at the end. Oracle = '
    "the format's own reader: DIP re-parse; json / yaml / toml loaders; bash 'source' + 'declare -p'; generated "
    'printer programs compiled with gcc (C11 _Generic, sizeof), g++ (std::is_same on decltype), gfortran (kind(), '
    'shape()) and rustc (type_name_of_val); names by the documented mapping; values exact for ints / bools / '
    'strings and to the declared width for floats; shape and element [i][j][k] order; declared type vs node type. '
    'A file its own compiler rejects is a violation of that back-end for that parameter (attributed by '
    're-exporting the parameter alone). Non-trivial: an array of rank >= 2, or a non-default width, or a float '
    'not representable in float32. Later rounds: non-ASCII strings; a selection made before the export on the '
    'same exporter object. Rounds 7-8: query and tags together; two tag selectors; parse() with the other units '
    'option first; the preselection exported as well; top-level parameters named like group members (selection '
    'and #define lists); the 132-column rule counts bytes. Round 10: one exporter object asked twice in a row on the compiled back-ends and Bash, the second answer is read back. Distinct = distinct case JSON.'
)
ASSUMPTIONS = [
    "Bash encodes true/false as 0/-1 and Rust maps float128 to f64, both as documented",
    "Fortran has no unsigned integers: only width and value are compared there",
    "none values are generated for Bash, JSON and YAML only",
    "trailing blanks of Fortran character values are not significant",
]
NT_FLOOR = 0.3
EXH_SHARDS = {"quick": 0, "thorough": 0}
_uid = itertools.count()
BACKENDS = ["dip", "json", "yaml", "toml", "bash", "c", "cpp", "fortran", "rust"]
INT_T = D.INT_TYPES
FLT_T = D.FLOAT_TYPES
FLOATS = [0.1, 12.1, 15.0, 23.7, 1.0 / 3.0, 6.02214076e23, 1e-7, -2.5, 0.5, 299792458.0, 1.7976931348623157e308, 5e-324 * 2 ** 60,
          123456.789012345, 0.0, -0.75, 3.0]
WORDS = ["Configuration test", "abc", "x", "two  blanks", "a,b;c", "UPPER lower", "tab-less", "#hash", "per%cent", "semi;", "v2#beta",
         "{curly}", "[1,2]", "true", "12", "none-such", "5 \u00b5m grid", "\u00c5. Bj\u00f6rk", "\u03b1"]
SPECIAL = ['say "hi"', "it's", "cost $5", "back\\slash", "`tick`", "a\"b'c"]


@st.composite
def param(draw, idx, allow_none):
    t = draw(st.sampled_from(["bool", "int", "float", "str", "int", "float", "str", "str", "bool"] + list(INT_T) + list(FLT_T)))
    rank = draw(st.sampled_from([0, 0, 0, 1, 1, 2, 2, 3]))
    shape = [draw(st.integers(1, 3)) for _ in range(rank)]

    def elem():
        if t == "bool":
            return draw(st.booleans())
        if t in INT_T:
            lo, hi = D.int_range(t)
            return draw(st.one_of(st.integers(lo, hi), st.integers(max(lo, -100), min(hi, 100)), st.sampled_from([lo, hi, 0])))
        if t in FLT_T:
            pool = FLOATS if FLT_T[t] > 32 else [x for x in FLOATS if x == 0 or 1e-37 < abs(x) < 3e38]
            return draw(st.sampled_from(pool))
        if rank == 0 and draw(st.integers(0, 9)) == 0:
            return draw(st.sampled_from(SPECIAL))
        return draw(st.sampled_from(WORDS))

    def build(dims):
        return elem() if not dims else [build(dims[1:]) for _ in range(dims[0])]
    val = build(shape)
    if rank and t in INT_T:
        # array literals are cast through numpy int64
        def clamp(x):
            return [clamp(y) for y in x] if isinstance(x, list) else max(-2 ** 63, min(2 ** 63 - 1, x))
        val = clamp(val)
    none = allow_none and rank == 0 and draw(st.integers(0, 11)) == 0
    segs = [draw(st.sampled_from(["box", "sim", "grid", "p"])) + str(idx)] if draw(st.booleans()) else []
    if segs and draw(st.integers(0, 2)) == 0:
        segs.append(draw(st.sampled_from(["size", "sub", "a"])))          # three and four levels deep
        if draw(st.integers(0, 2)) == 0:
            segs.append("in")
    segs.append(draw(st.sampled_from(["width", "n", "name", "flag", "v"])) + str(idx))
    unit = draw(st.sampled_from([None, "cm", "g/cm3", "s"])) if (t in INT_T or t in FLT_T) else None
    return {"path": segs, "type": t, "shape": shape, "val": None if none else val, "unit": unit, "tag": draw(st.booleans())}


@st.composite
def env_case(draw):
    n = draw(st.integers(3, 8))
    allow_none = draw(st.booleans())
    params = [draw(param(i, allow_none)) for i in range(n)]
    if len(params[0]["path"]) >= 2 and draw(st.booleans()):
        # neighbours whose names merely start with the first group's name: a query 'group.*' must not select them
        g = params[0]["path"][0]
        params.append({"path": [g + "es", "count"], "type": "int", "shape": [], "val": 7, "unit": None, "tag": False})
        params.append({"path": [g + "size"], "type": "int", "shape": [], "val": 8, "unit": None, "tag": False})
    n = len(params)
    select = draw(st.sampled_from([None, None, None, "tags", "query", "both"]))
    if select == "both" and len(params[0]["path"]) < 2:
        select = "query"
    if select == "both":
        # query AND tags: a tagged and an untagged member of the queried group, so that the intersection is neither
        # empty nor the whole group
        params[0]["tag"] = True
        params.append({"path": [params[0]["path"][0], "untagged"], "type": "int", "shape": [], "val": 9, "unit": None, "tag": False})
        n = len(params)
    preselect = draw(st.sampled_from([None, None, "query", "tags"]))
    parse_pre = draw(st.booleans())
    if preselect == "query" and parse_pre and select is None and len(params[0]["path"]) >= 2:
        # a top-level parameter that is called like a child of the group selected (and exported) first: the query
        # reports the child under that very name
        leaf = params[0]["path"][-1]
        if not any(p["path"] == [leaf] for p in params):
            params.append({"path": [leaf], "type": "int", "shape": [], "val": 7, "unit": None, "tag": False})
            n = len(params)
    scalars = [i for i, p in enumerate(params) if not p["shape"] and p["val"] is not None]
    define = draw(st.lists(st.sampled_from(scalars), max_size=2, unique=True)) if scalars else []
    const = draw(st.lists(st.sampled_from(range(n)), max_size=2, unique=True))
    if draw(st.integers(0, 4)) == 0 and len(params[0]["path"]) >= 2 and not params[0]["shape"] and params[0]["val"] is not None:
        # '#define' asked for a parameter inside a group; a top-level parameter carries the same last name and was
        # not asked for: the lists name full paths
        leaf = params[0]["path"][-1]
        if not any(p["path"] == [leaf] for p in params):
            params.append({"path": [leaf], "type": "int", "shape": [], "val": 7, "unit": None, "tag": False})
            n = len(params)
        define = [0]
        const = [c for c in const if c != 0]
    return {"params": params, "units": draw(st.booleans()), "rename": draw(st.sampled_from([True, True, False])),
            "define": define, "const": const,
            "select": select,
            "share_env": draw(st.sampled_from([True, True, False])), "rotate": draw(st.integers(0, 8)),
            "preselect": preselect,
            "other_option_first": draw(st.integers(0, 2)) == 0, "parse_preselection": parse_pre, "two_tags": draw(st.integers(0, 2)) == 0,
            "backends": draw(st.sampled_from([BACKENDS, BACKENDS, ["dip", "json", "yaml", "toml", "bash"], ["c", "cpp", "fortran", "rust"]]))}


def strategies(tier):
    return {"environment": (env_case(), 320, 6000, 8)}


# --------------------------------------------------------------------------- DIP text of the environment

def dip_literal(p):
    t, v = p["type"], p["val"]
    if v is None:
        return "none"

    def one(x):
        if t == "bool":
            return "true" if x else "false"
        if t in INT_T:
            return str(x)
        if t in FLT_T:
            return repr(float(x))
        return json.dumps(x)
    if not p["shape"]:
        if t == "str":
            q = '"' if "'" in v and '"' not in v else "'"
            return q + v.replace(q, "\\" + q) + q
        return one(v)

    def rec(x):
        return "[" + ",".join(rec(y) for y in x) + "]" if isinstance(x, list) else one(x)
    txt = rec(v)
    return "'" + txt + "'" if (" " in txt or "#" in txt) else txt


def dip_text(case):
    L = []
    for p in case["params"]:
        name = ".".join(p["path"])
        dim = "[" + ",".join(str(s) for s in p["shape"]) + "]" if p["shape"] else ""
        L.append(f"{name} {p['type']}{dim} = {dip_literal(p)}" + (f" {p['unit']}" if p["unit"] else ""))
        if p["tag"]:
            L.append('  !tags ["selection","extra"]' if case.get("two_tags") else '  !tags ["selection"]')
    return "\n".join(L)


def selected(case):
    ps = case["params"]
    if case["select"] == "tags":
        return [p for p in ps if p["tag"]]
    if case["select"] == "both":
        # a query and tags given together select the nodes that satisfy both
        return [p for p in selected(dict(case, select="query")) if p["tag"]]
    if case["select"] == "query":
        # a query 'box.*' returns the children under names relative to 'box' (pinned by the repository's own test)
        first = ps[0]["path"]
        if len(first) >= 2:
            return [dict(p, path=p["path"][1:]) for p in ps if len(p["path"]) >= 2 and p["path"][0] == first[0]]
        return [ps[0]]
    return list(ps)


def TAGS(case):
    # several tag selectors: every tagged node of the case carries both, so "any of them" and "all of them" agree
    return ["selection", "extra"] if case.get("two_tags") else ["selection"]


def query_of(case):
    first = case["params"][0]["path"]
    return (first[0] + ".*") if len(first) >= 2 else first[0]


def exported_name(p, rename):
    n = ".".join(p["path"])
    return n.upper().replace(".", "_") if rename else n


# --------------------------------------------------------------------------- comparison helpers

def flat(v):
    return [y for x in v for y in flat(x)] if isinstance(v, list) else [v]


def float_ok(got, exp, width):
    if width == 32:
        return float(np.float32(exp)) == float(np.float32(got)) or close(got, float(np.float32(exp)), 1e-6)
    return close(got, exp, 1e-15, 0.0)


def compare_param(backend, p, got, case):
    """got = {"val": nested python value, "shape": [...], "type": (class, width, unsigned) or None, "unit": ...} or None
    -> list of (category, detail)"""
    name = ".".join(p["path"])
    out = []
    if got is None:
        return [("missing", f"{name} is not defined by the {backend} export")]
    exp = p["val"]
    t = p["type"]
    if got.get("shape") is not None and list(got["shape"]) != list(p["shape"]):
        out.append(("shape", f"{name}: shape {got['shape']} != {p['shape']}"))
        return out
    ev, gv = flat(exp) if p["shape"] else [exp], flat(got["val"]) if isinstance(got["val"], list) else [got["val"]]
    if len(ev) != len(gv):
        return [("shape", f"{name}: {len(gv)} elements != {len(ev)}")]
    for i, (e, g) in enumerate(zip(ev, gv)):
        if e is None or g is None:
            ok = e is None and g is None
        elif t == "bool":
            ok = isinstance(g, bool) and g == e
        elif t in INT_T:
            ok = not isinstance(g, bool) and isinstance(g, int) and g == e
        elif t in FLT_T:
            width = FLT_T[t] if backend in ("c", "cpp", "fortran", "rust") else 64
            try:
                ok = float_ok(float(g), float(e), width)
            except Exception:
                ok = False
        else:
            ok = g == e
        if not ok:
            cat = "order" if sorted(map(repr, ev)) == sorted(map(repr, gv)) and len(ev) > 1 else "value"
            out.append((cat, f"{name}[flat {i}]: {g!r} != {e!r} (all: {gv!r} vs {ev!r})"))
            break
    if got.get("type") is not None:
        cls, width, uns = got["type"]
        ecls = "bool" if t == "bool" else "int" if t in INT_T else "float" if t in FLT_T else "str"
        ew = INT_T[t][1] if t in INT_T else FLT_T[t] if t in FLT_T else None
        eu = INT_T[t][0] if t in INT_T else None
        if backend == "rust" and ew == 128:
            ew = 64
        if backend == "fortran":
            eu = uns = None
        if cls != ecls or (ew is not None and width is not None and width != ew) or (eu is not None and uns is not None and uns != eu):
            out.append(("type", f"{name}: declared ({cls},{width},unsigned={uns}) but the node is ({ecls},{ew},unsigned={eu})"))
    if "unit" in got and case["units"] and backend in ("json", "yaml", "toml", "dip"):
        if (got["unit"] or None) != (p["unit"] or None):
            out.append(("unit", f"{name}: unit {got['unit']!r} != {p['unit']!r}"))
    return out


# --------------------------------------------------------------------------- readers

def run(cmd, cwd, timeout=120, inp=None):
    r = subprocess.run(cmd, cwd=cwd, capture_output=True, text=True, timeout=timeout, input=inp)
    return r.returncode, r.stdout, r.stderr


def read_data_format(backend, text, case, ps):
    if backend == "json":
        data = json.loads(text)
    elif backend == "yaml":
        import yaml
        data = yaml.safe_load(text)
    else:
        # the standard library's spec-conformant reader (the third-party 'toml' loader mis-reads a quoted key followed by
        # a value with an escaped quote, which is valid TOML)
        import tomllib
        data = tomllib.loads(text)
    if set(data.keys()) - {".".join(p["path"]) for p in ps}:
        extra = set(data.keys()) - {".".join(p["path"]) for p in ps}
        raise Mismatch("selection", f"exports parameters that were not selected: {sorted(extra)}")
    out = {}
    for p in ps:
        name = ".".join(p["path"])
        if name not in data:
            out[name] = None
            continue
        x = data[name]
        if isinstance(x, dict) and set(x.keys()) == {"value", "unit"}:
            out[name] = {"val": x["value"], "unit": x["unit"], "shape": shape_of(x["value"])}
        else:
            out[name] = {"val": x, "unit": None if case["units"] else p["unit"], "shape": shape_of(x)}
            if case["units"] and p["unit"]:
                out[name]["unit"] = None
    return out


def shape_of(v):
    s = []
    while isinstance(v, list):
        s.append(len(v))
        v = v[0] if v else None
    return s


class Mismatch(Exception):
    def __init__(self, cat, detail):
        super().__init__(detail)
        self.cat, self.detail = cat, detail


def read_dip(text, ps):
    from scinumtools.dip import DIP, Format
    with DIP(name=f"c19r_{next(_uid)}") as p:
        p.add_string(text)
        env = p.parse()
    tup = env.data(Format.TUPLE)
    typ = env.data(Format.TYPE)
    out = {}
    names = {".".join(p["path"]) for p in ps}
    if set(tup.keys()) - names:
        raise Mismatch("selection", f"exports parameters that were not selected: {sorted(set(tup.keys()) - names)}")
    for p in ps:
        name = ".".join(p["path"])
        if name not in tup:
            out[name] = None
            continue
        x = tup[name]
        unit = None
        if isinstance(x, tuple):
            x, unit = x
        x = D.to_py(x)
        tobj = typ[name]
        cls = {"BooleanType": "bool", "IntegerType": "int", "FloatType": "float", "StringType": "str"}[type(tobj).__name__]
        out[name] = {"val": x, "unit": unit, "shape": shape_of(x),
                     "type": (cls, int(getattr(tobj, "precision", 0)) or None, getattr(tobj, "unsigned", None))}
    return out


def read_bash(text, ps, case, tmp):
    path = os.path.join(tmp, "config.sh")
    with open(path, "w") as f:
        f.write(text)
    names = [exported_name(p, case["rename"]) for p in ps]
    script = f"source {path} || exit 3\n" + "\n".join(f"declare -p {n} 2>/dev/null || echo 'MISSING {n}'" for n in names)
    rc, out, err = run(["bash", "-c", script], tmp)
    if rc != 0:
        raise Mismatch("compile", f"bash could not source the file: {err.strip()[:300]}")
    res = {}
    decl = {}
    for line in out.splitlines():
        m = re.match(r"declare -(\S+) ([A-Za-z_][A-Za-z0-9_]*)=(.*)$", line)
        if m:
            decl[m.group(2)] = (m.group(1), m.group(3))
        m = re.match(r"declare -(\S+) ([A-Za-z_][A-Za-z0-9_]*)$", line)
        if m:
            decl[m.group(2)] = (m.group(1), None)

    def conv(p, s):
        t = p["type"]
        if s is None:
            return None
        if t == "bool":
            return {"0": True, "-1": False}.get(s, s)
        if t in INT_T:
            try:
                return int(s)
            except ValueError:
                return s
        if t in FLT_T:
            try:
                return float(s)
            except ValueError:
                return s
        return s

    def unq(s):
        # declare -p quoting: "..." with \" \\ \$ \` escapes, or $'...' for control characters
        if s.startswith('"') and s.endswith('"'):
            return re.sub(r'\\(["\\$`])', r"\1", s[1:-1])
        return s
    for p, n in zip(ps, names):
        name = ".".join(p["path"])
        if n not in decl:
            res[name] = None
            continue
        flags, body = decl[n]
        if "A" in flags or "a" in flags:
            items = dict(re.findall(r'\[([0-9,]+)\]="((?:[^"\\]|\\.)*)"', body or ""))
            shape = p["shape"]

            def get(idx):
                key = ",".join(str(i) for i in idx)
                return conv(p, re.sub(r'\\(["\\$`])', r"\1", items[key])) if key in items else None

            def build(dims, idx):
                return get(idx) if not dims else [build(dims[1:], idx + [i]) for i in range(dims[0])]
            n_expected = int(np.prod(shape)) if shape else 1
            res[name] = {"val": build(shape, []), "shape": shape if len(items) == n_expected else [len(items)]}
        else:
            s = unq(body) if body is not None else None
            if p["val"] is None:
                res[name] = {"val": None if s == "" else s, "shape": []}
            else:
                res[name] = {"val": conv(p, s), "shape": []}
    return res


C_TYPES = {"bool": ("bool", None, None), "i16": ("int", 16, False), "u16": ("int", 16, True), "i32": ("int", 32, False),
           "u32": ("int", 32, True), "i64": ("int", 64, False), "u64": ("int", 64, True), "f32": ("float", 32, None),
           "f64": ("float", 64, None), "f128": ("float", 128, None), "str": ("str", None, None)}


def c_printer(ps, case, cpp, defined):
    """source of a program printing 'NAME|type|d0,d1|v0;v1;...' per parameter (strings hex-encoded)"""
    L = []
    if cpp:
        L += ["#include <cstdio>", "#include <cstring>", "#include <type_traits>", '#include "config.h"',
              "template<class T> const char* tn(){ using U = std::remove_cv_t<T>;",
              " if (std::is_same<U,bool>::value) return \"bool\"; if (std::is_same<U,short>::value) return \"i16\";",
              " if (std::is_same<U,unsigned short>::value) return \"u16\"; if (std::is_same<U,int>::value) return \"i32\";",
              " if (std::is_same<U,unsigned int>::value) return \"u32\"; if (std::is_same<U,long long>::value) return \"i64\";",
              " if (std::is_same<U,unsigned long long>::value) return \"u64\"; if (std::is_same<U,float>::value) return \"f32\";",
              " if (std::is_same<U,double>::value) return \"f64\"; if (std::is_same<U,long double>::value) return \"f128\";",
              " if (std::is_same<U,char*>::value || std::is_same<U,const char*>::value) return \"str\"; return \"?\"; }",
              "#define TN(x) tn<std::remove_all_extents_t<std::remove_reference_t<decltype(x)>>>()"]
    else:
        L += ["#include <stdio.h>", "#include <string.h>", '#include "config.h"',
              '#define TN(x) _Generic((x), _Bool:"bool", char*:"str", const char*:"str", short:"i16", unsigned short:"u16", '
              'int:"i32", unsigned int:"u32", long long:"i64", unsigned long long:"u64", float:"f32", double:"f64", '
              'long double:"f128", default:"?")']
    L.append("static void hex(const char* s){ for(size_t i=0;i<strlen(s);i++) printf(\"%02x\", (unsigned char)s[i]); }")
    L.append("int main(){")
    for p in ps:
        n = exported_name(p, case["rename"])
        t = p["type"]
        rank = len(p["shape"])
        idx = "".join(f"[i{d}]" for d in range(rank))
        zero = "".join("[0]" for _ in range(rank))
        if n in defined:
            # preprocessor definition: no type, print the value through the natural conversion
            if t == "str":
                L.append(f'  printf("{n}|define|"); hex({n}); printf("\\n");')
            elif t in FLT_T:
                L.append(f'  printf("{n}|define|%.21Lg\\n", (long double)({n}));')
            elif t in INT_T and INT_T[t][0]:
                L.append(f'  printf("{n}|define|%llu\\n", (unsigned long long)({n}));')
            else:
                L.append(f'  printf("{n}|define|%lld\\n", (long long)({n}));')
            continue
        dims = []
        for d in range(rank):
            sub = "".join("[0]" for _ in range(d))
            dims.append(f"sizeof({n}{sub})/sizeof({n}{sub}[0])")
        L.append(f'  printf("{n}|%s|", TN({n}{zero}));')
        if cpp:
            L[-1] = f'  printf("{n}|%s|", TN({n}));'
        for d, e in enumerate(dims):
            L.append(f'  printf("%zu{"," if d < rank - 1 else ""}", (size_t)({e}));')
        L.append('  printf("|");')
        for d in range(rank):
            L.append(f"  for (size_t i{d}=0;i{d}<{dims[d]};i{d}++)")
        if t == "str":
            L.append(f'  {{ hex({n}{idx}); printf(";"); }}')
        elif t == "bool":
            L.append(f'  printf("%d;", (int){n}{idx});')
        elif t in INT_T:
            L.append(f'  printf("{"%llu" if INT_T[t][0] else "%lld"};", ({"unsigned long long" if INT_T[t][0] else "long long"}){n}{idx});')
        else:
            L.append(f'  printf("%.21Lg;", (long double){n}{idx});')
        L.append('  printf("\\n");')
    L.append("  return 0; }")
    return "\n".join(L)


def parse_printer(out, ps, case, defined=()):
    res = {}
    rows = {}
    for line in out.splitlines():
        parts = line.split("|")
        if len(parts) >= 3:
            rows[parts[0]] = parts
    for p in ps:
        name = ".".join(p["path"])
        n = exported_name(p, case["rename"])
        if n not in rows:
            res[name] = None
            continue
        r = rows[n]
        t = p["type"]

        def conv(s):
            if t == "str":
                return bytes.fromhex(s).decode("utf-8", "replace")
            if t == "bool":
                return {"1": True, "0": False, "T": True, "F": False, "true": True, "false": False}.get(s, s)
            if t in INT_T:
                try:
                    return int(s)
                except ValueError:
                    return s
            try:
                return float(s)
            except ValueError:
                return s
        if r[1] == "define":
            res[name] = {"val": conv(r[2]), "shape": []}
            continue
        shape = [int(x) for x in r[2].split(",")] if r[2] else []
        vals = [conv(x) for x in r[3].split(";") if x != "" or t == "str"]
        if t == "str":
            vals = [conv(x) for x in r[3].split(";")[:-1]]

        def build(dims, it):
            return next(it) if not dims else [build(dims[1:], it) for _ in range(dims[0])]
        try:
            val = build(shape, iter(vals))
        except StopIteration:
            val = vals
        res[name] = {"val": val, "shape": shape, "type": C_TYPES.get(r[1], (r[1], None, None))}
    return res


def read_c(text, ps, case, tmp, cpp, defined):
    d = os.path.join(tmp, "cpp" if cpp else "c")
    os.makedirs(d, exist_ok=True)
    with open(os.path.join(d, "config.h"), "w") as f:
        f.write(text + "\n")
    src = "main.cpp" if cpp else "main.c"
    with open(os.path.join(d, src), "w") as f:
        f.write(c_printer(ps, case, cpp, defined))
    cmd = ["g++", "-std=c++17", "-w", "-fpermissive", "-o", "prog", src] if cpp else ["gcc", "-std=c11", "-w", "-o", "prog", src]
    rc, out, err = run(cmd, d)
    if rc != 0:
        raise Mismatch("compile", (err.strip().splitlines() or ["?"])[0][:300])
    rc, out, err = run(["./prog"], d)
    if rc != 0:
        raise Mismatch("compile", f"printer exited {rc}: {err[:200]}")
    return parse_printer(out, ps, case, defined)


linelength = []


def read_fortran(text, ps, case, tmp):
    del linelength[:]
    d = os.path.join(tmp, "fortran")
    os.makedirs(d, exist_ok=True)
    with open(os.path.join(d, "config.f90"), "w") as f:
        f.write(text + "\n")
    L = ["program p", "use ConfigurationModule", "implicit none", "integer :: i0, i1, i2"]
    for p in ps:
        n = exported_name(p, case["rename"])
        t = p["type"]
        rank = len(p["shape"])
        if t == "str":
            tn = "'str'"
        elif t == "bool":
            tn = "'bool'"
        else:
            zero = "(" + ",".join("1" for _ in range(rank)) + ")" if rank else ""
            tn = ("'k'" if t in INT_T else "'r'") + f", kind({n}{zero})"
        L.append(f"write(*,'(A)',advance='no') '{n}|'")
        if t in ("str", "bool"):
            L.append(f"write(*,'(A)',advance='no') {tn}")
        else:
            L.append(f"write(*,'(A,I0)',advance='no') {tn}")
        L.append("write(*,'(A)',advance='no') '|'")
        for dd in range(rank):
            L.append(f"write(*,'(I0,A)',advance='no') size({n},{dd + 1}), '{',' if dd < rank - 1 else ''}'")
        L.append("write(*,'(A)',advance='no') '|'")
        idx = "(" + ",".join(f"i{dd}" for dd in range(rank)) + ")" if rank else ""
        for dd in range(rank):
            L.append(f"do i{dd}=1,size({n},{dd + 1})")
        if t == "str":
            L.append(f"write(*,'(A,A)',advance='no') trim({n}{idx}), achar(1)")
        elif t == "bool":
            L.append(f"write(*,'(L1,A)',advance='no') {n}{idx}, ';'")
        elif t in INT_T:
            L.append(f"write(*,'(I0,A)',advance='no') {n}{idx}, ';'")
        else:
            L.append(f"write(*,'(ES45.36E4,A)',advance='no') {n}{idx}, ';'")
        for dd in range(rank):
            L.append("end do")
        L.append("write(*,'(A)') ''")
    L.append("end program")
    with open(os.path.join(d, "main.f90"), "w") as f:
        f.write("\n".join(L) + "\n")
    rc, out, err = run(["gfortran", "-w", "-o", "prog", "config.f90", "main.f90"], d)
    long_lines = [l for l in text.splitlines() if len(l.encode("utf-8")) > 132]   # gfortran counts bytes
    if rc != 0 and long_lines:
        # free-form source lines are limited to 132 columns: report that, then lift the limit so that the values
        # behind it are still examined
        linelength.append(f"gfortran rejects the file with default options; {len(long_lines)} statement(s) exceed 132 "
                          f"columns (longest {max(len(l) for l in long_lines)}): {long_lines[0][:100]}...")
        rc, out, err = run(["gfortran", "-w", "-ffree-line-length-none", "-o", "prog", "config.f90", "main.f90"], d)
    if rc != 0:
        msg = [l for l in err.splitlines() if l.startswith("Error") or "Error:" in l]
        raise Mismatch("compile", (msg or err.strip().splitlines() or ["?"])[0][:300])
    rc, out, err = run(["./prog"], d)
    if rc != 0:
        raise Mismatch("compile", f"printer exited {rc}: {err[:200]}")
    res = {}
    rows = {l.split("|")[0]: l.split("|") for l in out.split("\n") if "|" in l}
    for p in ps:
        name = ".".join(p["path"])
        n = exported_name(p, case["rename"])
        if n not in rows:
            res[name] = None
            continue
        r = rows[n]
        t = p["type"]
        shape = [int(x) for x in r[2].split(",")] if r[2] else []
        raw = "|".join(r[3:])
        if t == "str":
            vals = raw.split(chr(1))[:-1]
            vals = [x.rstrip(" ") for x in vals]
        else:
            vals = [x.strip() for x in raw.split(";") if x.strip() != ""]
            if t == "bool":
                vals = [{"T": True, "F": False}.get(x, x) for x in vals]
            elif t in INT_T:
                vals = [int(x) for x in vals]
            else:
                vals = [float(x) for x in vals]
        # the printer loops with the FIRST index outermost, i.e. element (i0,i1,i2) <-> DIP [i0][i1][i2]

        def build(dims, it):
            return next(it) if not dims else [build(dims[1:], it) for _ in range(dims[0])]
        try:
            val = build(shape, iter(vals))
        except StopIteration:
            val = vals
        kind = r[1]
        if kind.startswith("k"):
            typ = ("int", int(kind[1:]) * 8, None)
        elif kind.startswith("r"):
            typ = ("float", int(kind[1:]) * 8, None)
        else:
            typ = (kind, None, None)
        res[name] = {"val": val, "shape": shape, "type": typ}
        if t == "str" and not p["shape"]:
            res[name]["val"] = vals[0] if vals else ""
    return res


RUST_TYPES = {"bool": ("bool", None, None), "i16": ("int", 16, False), "u16": ("int", 16, True), "i32": ("int", 32, False),
              "u32": ("int", 32, True), "i64": ("int", 64, False), "u64": ("int", 64, True), "f32": ("float", 32, None),
              "f64": ("float", 64, None), "&str": ("str", None, None)}


def read_rust(text, ps, case, tmp):
    d = os.path.join(tmp, "rust")
    os.makedirs(d, exist_ok=True)
    with open(os.path.join(d, "config.rs"), "w") as f:
        f.write(text + "\n")
    L = ["#![allow(dead_code, non_upper_case_globals)]", 'include!("config.rs");', "fn main(){"]
    for p in ps:
        n = exported_name(p, case["rename"])
        L.append(f'  println!("{n}|{{}}|{{:?}}", std::any::type_name_of_val(&{n}), {n});')
    L.append("}")
    with open(os.path.join(d, "main.rs"), "w") as f:
        f.write("\n".join(L) + "\n")
    rc, out, err = run(["rustc", "-A", "warnings", "-C", "debuginfo=0", "-o", "prog", "main.rs"], d)
    if rc != 0:
        msg = [l for l in err.splitlines() if l.startswith("error")]
        raise Mismatch("compile", (msg or ["?"])[0][:300])
    rc, out, err = run(["./prog"], d)
    res = {}
    rows = {}
    for l in out.splitlines():
        parts = l.split("|", 2)
        if len(parts) == 3:
            rows[parts[0]] = parts
    for p in ps:
        name = ".".join(p["path"])
        n = exported_name(p, case["rename"])
        if n not in rows:
            res[name] = None
            continue
        _n, tname, dbg = rows[n]
        shape = [int(x) for x in re.findall(r"; (\d+)\]", tname)][::-1]
        base = re.sub(r"[\[\]]|; \d+", "", tname).strip()
        try:
            val = json.loads(re.sub(r"\binf\b", "1e999", dbg))
        except Exception:
            val = dbg
        if p["type"] in FLT_T:
            def tofloat(x):
                return [tofloat(y) for y in x] if isinstance(x, list) else float(x)
            try:
                val = tofloat(val)
            except Exception:
                pass
        res[name] = {"val": val, "shape": shape, "type": RUST_TYPES.get(base, (base, None, None))}
    return res


# --------------------------------------------------------------------------- export + check

def do_export(backend, env, case, ps_all):
    from scinumtools.dip import config as C
    cls = {"dip": C.ExportConfig, "json": C.ExportConfigJSON, "yaml": C.ExportConfigYAML, "toml": C.ExportConfigTOML,
           "bash": C.ExportConfigBash, "c": C.ExportConfigC, "cpp": C.ExportConfigCPP, "fortran": C.ExportConfigFortran,
           "rust": C.ExportConfigRust}[backend]
    kw = {}
    if backend in ("bash", "c", "cpp", "fortran", "rust") and not case["rename"]:
        kw["rename"] = False
    with cls(env, **kw) as exp:
        # an earlier selection on the same exporter object must not narrow the one that counts
        pre = case.get("preselect")
        if pre == "tags" and case["select"] != "tags":
            exp.select(tags=TAGS(case))
        elif pre == "query" and case["select"] != "query":
            exp.select(query=query_of(case))
        else:
            pre = None
        if pre and case.get("parse_preselection"):
            # the earlier selection was exported, too: what it produced must not show up in the export that counts
            try:
                exp.parse()
            except Exception:
                pass
        if case["select"] == "tags":
            exp.select(tags=TAGS(case))
        elif case["select"] == "query":
            exp.select(query=query_of(case))
        elif case["select"] == "both":
            exp.select(query=query_of(case), tags=TAGS(case))
        elif pre:
            exp.select()
        if backend in ("json", "yaml", "toml"):
            if case.get("other_option_first"):
                # the same exporter object asked for the other spelling first: each parse() answers its own options
                exp.parse(units=not case["units"])
            return exp.parse(units=case["units"])
        if case.get("other_option_first") and backend not in ("json", "yaml", "toml"):
            # the same exporter object asked twice in a row: the second answer is the one that is read back
            try:
                if backend in ("c", "cpp"):
                    exp.parse(define=tuple(".".join(case["params"][i]["path"]) for i in case["define"]) or None)
                else:
                    exp.parse()
            except Exception:
                pass
        if backend == "c":
            return exp.parse(define=tuple(".".join(case["params"][i]["path"]) for i in case["define"]) or None)
        if backend == "cpp":
            return exp.parse(define=tuple(".".join(case["params"][i]["path"]) for i in case["define"]) or None,
                             const=tuple(".".join(case["params"][i]["path"]) for i in case["const"]) or None)
        return exp.parse()


def applicable(backend, p, case):
    """Which parameters a back-end is asked to carry (see ASSUMPTIONS)"""
    if p["val"] is None and backend not in ("bash", "json", "yaml"):
        return False
    if not case["rename"] and backend in ("bash", "c", "cpp", "fortran", "rust") and len(p["path"]) > 1:
        return False       # a dotted name is not an identifier
    return True


def parse_env(text):
    from scinumtools.dip import DIP
    with DIP(name=f"c19_{next(_uid)}") as dip:
        dip.add_string(text)
        return dip.parse()


def check_backend(backend, case, tmp, v, envs=None):
    """Export the applicable selected parameters through one back-end and compare; on a rejected file re-export
    parameter by parameter to attribute the failure."""
    sel = [p for p in selected(case) if applicable(backend, p, case)]
    if not sel:
        return
    sub = dict(case, params=[p for p in case["params"] if applicable(backend, p, case)])
    if not sub["params"]:
        return
    # keep define/const indices valid for the filtered list
    names_def = {".".join(case["params"][i]["path"]) for i in case["define"]}
    names_const = {".".join(case["params"][i]["path"]) for i in case["const"]}
    sub["define"] = [i for i, p in enumerate(sub["params"]) if ".".join(p["path"]) in names_def]
    sub["const"] = [i for i, p in enumerate(sub["params"]) if ".".join(p["path"]) in names_const]
    sel = selected(sub)
    if not sel:
        return
    results = attempt(backend, sub, sel, tmp, v, envs=envs)
    if results == "retry-single":
        for i, p in enumerate(sel):
            single = dict(sub, params=[p], select=None, define=[0] if ".".join(p["path"]) in names_def else [],
                          const=[0] if ".".join(p["path"]) in names_const else [])
            attempt(backend, single, [p], os.path.join(tmp, f"s{i}"), v, single=True)


def attempt(backend, case, sel, tmp, v, single=False, envs=None):
    os.makedirs(tmp, exist_ok=True)
    text_env = dip_text(case)
    try:
        if envs is not None and text_env in envs:
            env = envs[text_env]        # the very environment an earlier back-end exported from
            v.label("exported_again_from_same_environment")
        else:
            env = parse_env(text_env)
            if envs is not None:
                envs[text_env] = env
    except Exception as e:
        raise HarnessError(f"generated environment does not parse: {e!r}\n{text_env}")
    try:
        text = do_export(backend, env, case, case["params"])
    except Exception as e:
        if not single and len(sel) > 1:
            return "retry-single"
        p = sel[0]
        v.fail(f"{backend}-export-raised", f"{backend} export raised {e!r} for parameter {describe(p)}")
        return None
    defined = {exported_name(case["params"][i], case["rename"]) for i in case["define"]} if backend in ("c", "cpp") else set()
    try:
        if backend == "dip":
            got = read_dip(text, sel)
        elif backend in ("json", "yaml", "toml"):
            got = read_data_format(backend, text, case, sel)
        elif backend == "bash":
            got = read_bash(text, sel, case, tmp)
        elif backend in ("c", "cpp"):
            got = read_c(text, sel, case, tmp, backend == "cpp", defined)
        elif backend == "fortran":
            try:
                got = read_fortran(text, sel, case, tmp)
            finally:
                for msg in linelength:
                    v.fail("fortran-linelength", msg + " | parameter(s): " + "; ".join(describe(p) for p in sel))
                del linelength[:]
        else:
            got = read_rust(text, sel, case, tmp)
    except Mismatch as m:
        if m.cat == "compile" and not single and len(sel) > 1:
            return "retry-single"
        v.fail(f"{backend}-{m.cat}", f"{m.detail} | parameter(s): {'; '.join(describe(p) for p in sel)} | exported text:\n{text[:600]}")
        return None
    except (subprocess.TimeoutExpired, FileNotFoundError) as e:
        raise HarnessError(f"{backend} reader failed: {e!r}")
    except Exception as e:
        if not single and len(sel) > 1:
            return "retry-single"
        v.fail(f"{backend}-unreadable", f"the {backend} reader failed with {e!r} for {describe(sel[0])} | exported text:\n{text[:600]}")
        return None
    for p in sel:
        name = ".".join(p["path"])
        if exported_name(p, case["rename"]) in defined:
            g = got.get(name)
            for cat, detail in compare_param(backend, p, dict(g, type=None) if g else None, case):
                v.fail(f"{backend}-{cat}", detail + f" | {describe(p)} (#define)")
            continue
        for cat, detail in compare_param(backend, p, got.get(name), case):
            v.fail(f"{backend}-{cat}", detail + f" | {describe(p)}")
    return got


def describe(p):
    return f"{'.'.join(p['path'])} {p['type']}{p['shape'] or ''} = {p['val']!r}{' ' + p['unit'] if p['unit'] else ''}"


def check(case):
    v = Verdict()
    tmp = tempfile.mkdtemp(prefix="svc19_")
    try:
        # one parsed environment serves all back-ends of a case, in a generated order, and the first back-end is run once
        # more at the end: an export must not change what the next one sees
        envs = {} if case.get("share_env") else None
        order = list(case["backends"])
        if case.get("share_env"):
            k = case.get("rotate", 0) % len(order)
            order = order[k:] + order[:k]
            order.append(order[0])
        for i, b in enumerate(order):
            check_backend(b, case, os.path.join(tmp, f"{i}{b}"), v, envs)
    finally:
        shutil.rmtree(tmp, ignore_errors=True)
        if not R.tables_pristine():
            R.restore_tables()
    ps = case["params"]
    v.nt(any(len(p["shape"]) >= 2 for p in ps) or any(p["type"] not in ("int", "float", "bool", "str") for p in ps) or
         any(p["type"] in FLT_T and any(float(np.float32(x)) != x for x in (flat(p["val"]) if p["shape"] else [p["val"]]) if x is not None)
             for p in ps))
    v.label("env", *("be_" + b for b in case["backends"]), "rename" if case["rename"] else "norename",
            "select_" + str(case["select"]))
    if case.get("other_option_first"):
        v.label("parse_called_with_the_other_units_option_first")
    if case.get("two_tags") and (case["select"] in ("tags", "both") or case.get("preselect") == "tags"):
        v.label("selection_by_two_tags")
    if case.get("preselect") and case.get("preselect") != case["select"]:
        v.label("selected_twice")
    return v


# --------------------------------------------------------------------------- known findings (input shape AND observed behaviour)

def _param_of(detail):
    m = re.search(r"\| (?:parameter\(s\): )?([A-Za-z0-9_.]+) (\w+)(\[[0-9, ]*\])? = ", detail)
    return m


def _k_fortran_int_range(case, kind, detail):
    # an integer whose magnitude does not fit gfortran's DEFAULT integer kind is written without kind suffix
    if kind != "fortran-compile" or "too big for its kind" not in detail:
        return False
    vals = [int(x) for x in re.findall(r"-?\d{10,}", detail.split("exported text:")[0])]
    return True if vals or re.search(r"= -?\d{5,}", detail) else False


def _k_fortran_real_literal(case, kind, detail):
    # real(kind=8/16) initialised from a default-real literal: the value is rounded to single precision
    if kind != "fortran-value":
        return False
    m = re.search(r"\[flat \d+\]: (\S+) != (\S+) \(", detail)
    if not m or "float" not in detail:
        return False
    try:
        got, exp = float(m.group(1)), float(m.group(2))
    except ValueError:
        return False
    return float(np.float32(exp)) == float(np.float32(got)) or close(got, float(np.float32(exp)), 1e-6)


def _k_fortran_string_array(case, kind, detail):
    return kind == "fortran-compile" and "Different CHARACTER lengths" in detail


def _k_fortran_real_range(case, kind, detail):
    # a double beyond the single-precision range written as a default-real literal
    return kind == "fortran-compile" and ("Real constant overflows" in detail or "Real constant underflows" in detail
                                          or "Arithmetic overflow" in detail)


def _special_string(detail):
    return any(ch in detail.split("|")[-1] or ch in detail for ch in ['\\"', "\\\\", "$", "`", "'"]) and " str" in detail


def _k_quotes(case, kind, detail):
    # strings containing a quote, backslash, dollar or backtick are written unescaped by every text back-end
    if kind.split("-")[0] not in ("dip", "bash", "c", "cpp", "fortran", "rust"):
        return False
    if kind.split("-", 1)[1] not in ("value", "compile", "unreadable", "missing", "shape"):
        return False
    # (a query selection reports names relative to the queried group: match the full path or its tail)
    return any(p["type"] == "str" and not p["shape"] and isinstance(p["val"], str) and any(c in p["val"] for c in '"\\$`\'')
               and any(re.search(r"(^|[ (\n])" + re.escape(".".join(p["path"][i:])) + " str = ", detail) for i in range(len(p["path"])))
               for p in case["params"])


def _k_toml_key(case, kind, detail):
    return False


def _k_dip_arrays(case, kind, detail):
    # the plain DIP text export treats every value as a scalar (int()/float()/quoting): array-valued and none
    # parameters raise TypeError or come back as something else
    if not kind.startswith("dip-"):
        return False
    return bool(re.search(r"\[[0-9, ]+\] = |= None", detail))


def _k_fortran_linelength(case, kind, detail):
    return kind == "fortran-linelength" and "exceed 132 columns" in detail


KNOWN = {
    "C19-K7": _k_fortran_linelength,
    "C19-K1": _k_fortran_int_range,
    "C19-K2": _k_fortran_real_literal,
    "C19-K3": _k_fortran_string_array,
    "C19-K4": _k_quotes,
    "C19-K5": _k_fortran_real_range,
}
