"""C04 — linear unit conversion is exact, reversible and dimension-safe."""
import math

import numpy as np
from hypothesis import strategies as st

from ..core import Verdict, close
from ..refs import units_ref as R
from ..refs import unit_gens as G

ID = "C04"
RULE = (
    'A case draws a dimension class of the linear table units, three unit expressions u,v,w of that dimension '
    '(prefixed atoms, constants, base-unit expansions with random prefixes, atom*X/Y ratios) and a magnitude x '
    '(0, +-, exponents to 1e+-250, scalars and arrays). Oracle: x*F(u)/F(v) with F from the independent table '
    'reference; value(v), to(v), to(v).to(u)==x, to(w).to(v)==direct. Reciprocal-dimension pairs expect 1/(x '
    'F(u))/F(v); the target also given as the Quantity k*v (result/k); bare numbers to rad/mrad (a NAMED '
    'dimensionless unit such as % is not a bare number and must be refused); pairs of differing non-reciprocal '
    'dimension must raise and leave value/units untouched. Non-trivial: u!=v textually with F(u)!=F(v) and x!=0, '
    'or a rejection pair, or a reciprocal pair. Round 4: degR inside compound expressions, as reciprocal, and '
    'refused against other powers (strategy rankine). Later rounds: float32 / float16 / integer-array / Decimal '
    'magnitudes (typed_input), to(None), reciprocal conversions of quantities that carry a relative error, Unit() '
    'attributes read, converted in place and read again (unit_object). Rounds 7-8: unit-system atoms raised to '
    'powers (strategy system); unreduced exponent spellings of the radian (rad2:2). Distinct = distinct case '
    'JSON.'
)
ASSUMPTIONS = [
    "temperature (Cel, degF) and logarithmic units are excluded here (C05)",
    "cases where x*F(u) leaves [1e-300,1e300] are discarded: the library multiplies before dividing, an intermediate "
    "overflow is float range, not a conversion error",
    "relative tolerance 1e-11 (products of up to ~10 table factors and powers)",
]
NT_FLOOR = 0.5
TOL = 1e-11


@st.composite
def convert_case(draw):
    dim = draw(st.sampled_from(G.DIMS))
    u = draw(G.expr_of_dim(dim))
    v = draw(G.expr_of_dim(dim))
    w = draw(G.expr_of_dim(dim))
    return {"kind": "convert", "u": u, "v": v, "w": w, "x": draw(G.magnitudes()),
            "k": draw(st.sampled_from([None, 2.0, 10.0, 0.25]))}      # target given as the Quantity k*v


def _system_powers():
    out = []
    for sym in sorted(k for k in R.ATOM if k.startswith("#")):
        for n in (1, 2, 3, -1, -2):
            try:
                dim = tuple(R.evaluate(G.atom("", sym, n, 1))[2])
            except Exception:
                continue
            if dim in set(G.DIMS):
                out.append((sym, n, dim))
    return out


SYSTEM_POWERS = _system_powers()


@st.composite
def system_case(draw):
    """units of the unit systems (#CLEN, #SMAS ...) raised to powers, converted into ordinary expressions of that dimension"""
    sym, n, dim = draw(st.sampled_from(SYSTEM_POWERS))
    u = G.atom("", sym, n, 1)
    if draw(st.booleans()):
        u = ["*", u, draw(G.expr_of_dim(R.ZERO))]
    return {"kind": "convert", "u": u, "v": draw(G.expr_of_dim(dim)), "w": draw(G.expr_of_dim(dim)),
            "x": draw(G.magnitudes()), "k": None}


@st.composite
def rebase_mix_case(draw):
    """two units whose dimensions are different powers of the same base dimensions (l*m, J*N, Hz*min2): rebase() may
    only merge units of the SAME dimension"""
    a, b = draw(st.sampled_from([(("", "l"), ("", "m")), (("", "J"), ("", "N")), (("", "Hz"), ("", "min")), (("", "ar"), ("k", "m")),
                                 (("m", "l"), ("c", "m")), (("", "W"), ("", "J")), (("", "Pa"), ("", "N")), (("", "l"), ("", "ar"))]))
    ea, eb = draw(st.sampled_from([(1, 1), (1, -1), (1, 2), (2, 1), (-1, 2)]))
    u = [draw(st.sampled_from(["*", "*", "/"])), G.atom(a[0], a[1], ea, 1), G.atom(b[0], b[1], eb, 1)]
    if draw(st.booleans()):
        u = ["*", u, G.atom(a[0], a[1], 1, 1)]          # ... next to a second unit of the first dimension (which does merge)
    return {"kind": "convert", "u": u, "v": u, "w": u, "x": draw(G.magnitudes()), "k": None}


RECIP_DIMS = [d for d in G.NONZERO_DIMS]


@st.composite
def recip_case(draw):
    dim = draw(st.sampled_from(RECIP_DIMS))
    u = draw(G.expr_of_dim(dim))
    v = draw(G.expr_of_dim(G.neg(dim)))
    x = draw(G.magnitudes().filter(lambda m: all(e != 0 for e in (m if isinstance(m, list) else [m]))))
    # an uncertainty attached to the quantity does not move the converted value
    return {"kind": "recip", "u": u, "v": v, "x": x, "k": draw(st.sampled_from([None, 2.0, 10.0, 0.25])),
            "err": draw(st.sampled_from([None, None, 0.25, 0.01]))}


@st.composite
def rad_case(draw):
    # 'rad2:2' and 'mrad3:3' are the same units with the exponent written as a fraction that is not reduced
    return {"kind": "rad", "v": draw(st.sampled_from(["rad", "mrad", "rad", "mrad", "rad2:2", "mrad3:3"])), "x": draw(G.magnitudes())}


ANGLES = [R.render(G.atom(p, s)) for (p, s) in G.GROUPS[G.RAD_DIM] if s != "rad"] + ["deg*m/cm", "rad2", "sr"]


@st.composite
def bare_refuse_case(draw):
    """a bare number converts to radians only: every other dimensional target must be refused"""
    if draw(st.booleans()):
        v = draw(st.sampled_from(ANGLES))
    else:
        v = R.render(draw(G.expr_of_dim(draw(st.sampled_from(G.NONZERO_DIMS)))))
    return {"kind": "bare_refuse", "v": v, "x": draw(G.magnitudes()), "ratio": draw(st.booleans())}


@st.composite
def refuse_case(draw):
    if draw(st.integers(0, 7)) == 0:
        # a NAMED dimensionless unit (%, ppth, [pi] ...) is not a bare number: it does not convert to an angle
        u = G.atom(*draw(st.sampled_from(G.NODIM_FACTOR)))
        v = G.atom(*draw(st.sampled_from([a for a in G.GROUPS[G.RAD_DIM]])))
        return {"kind": "refuse", "u": u, "v": v, "x": draw(G.magnitudes())}
    d1 = draw(st.sampled_from(G.DIMS))
    d2 = draw(st.sampled_from(G.DIMS).filter(lambda d: d != d1 and d != G.neg(d1)))
    u = draw(G.expr_of_dim(d1))
    v = draw(G.expr_of_dim(d2))
    return {"kind": "refuse", "u": u, "v": v, "x": draw(G.magnitudes())}


def _rankine_pairs():
    A = G.atom
    par = lambda x: ["(", x]
    return [
        (["/", A("", "J"), A("", "degR")], ["/", A("", "erg"), A("", "K")], ["/", A("k", "J"), A("m", "K")]),
        (["/", A("", "degR"), A("", "s")], ["/", A("", "K"), A("", "min")], ["/", A("m", "K"), A("m", "s")]),
        (["/", A("", "W"), par(["*", A("", "m", 2, 1), A("", "degR", 4, 1)])],
         ["/", A("", "W"), par(["*", A("", "m", 2, 1), A("", "K", 4, 1)])],
         ["/", A("m", "W"), par(["*", A("c", "m", 2, 1), A("", "K", 4, 1)])]),
        (["/", ["*", A("k", "g"), A("", "m", 2, 1)], par(["*", A("", "s", 2, 1), A("", "degR")])],
         ["/", A("", "J"), A("", "K")], ["/", A("", "erg"), A("", "K")]),
        (["*", A("", "degR"), A("k", "m")], ["*", A("", "K"), A("", "m")], ["*", A("m", "K"), A("", "m")]),
    ]


@st.composite
def rankine_case(draw):
    """degR is a linear unit (5/9 K): inside compound expressions it converts like any other, its reciprocal converts as a
    reciprocal, and another power of the temperature is refused"""
    k = draw(st.sampled_from(["convert", "convert", "recip", "refuse"]))
    x = draw(G.magnitudes())
    if k == "convert":
        u, v, w = draw(st.sampled_from(_rankine_pairs()))
        if draw(st.booleans()):
            u, v = v, u
        return {"kind": "convert", "u": u, "v": v, "w": w, "x": x, "k": None}
    if k == "recip":
        x = draw(G.magnitudes().filter(lambda m: all(e != 0 for e in (m if isinstance(m, list) else [m]))))
        return {"kind": "recip", "u": G.atom("", "degR", -1, 1), "v": G.atom(draw(st.sampled_from(["", "m", "k"])), "K"), "x": x, "k": None}
    return {"kind": "refuse", "u": G.atom("", "degR"), "v": G.atom("", "K", draw(st.sampled_from([2, -2, 3])), 1), "x": x}


@st.composite
def typed_case(draw):
    """the magnitude handed over as a numpy array of a narrower dtype, or as a Decimal: it is the number that counts,
    conversions are carried out in double precision (Decimal: exactly)"""
    dtype = draw(st.sampled_from(["float32", "float16", "int64", "int32", "decimal", "decimal"]))
    recip = draw(st.integers(0, 2)) == 0
    dim = draw(st.sampled_from(RECIP_DIMS if recip else G.DIMS))
    u = draw(G.expr_of_dim(dim))
    v = draw(G.expr_of_dim(G.neg(dim) if recip else dim))
    if dtype == "decimal":
        x = draw(st.sampled_from(["2.5", "40", "0.125", "3", "1000"]))
    else:
        pool = [1.0, 2.0, 0.5, 100.0, 250.0, 3.0, 12.0] if dtype.startswith("float") else [1, 2, 100, 250, 3, 7]
        x = draw(st.lists(st.sampled_from(pool), min_size=1, max_size=3))
    return {"kind": "typed", "u": u, "v": v, "x": x, "dtype": dtype, "recip": recip}


@st.composite
def to_none_case(draw):
    """None as target is 'no unit': a dimensionless quantity is converted to the bare number, anything else is refused"""
    if draw(st.booleans()):
        u = draw(G.expr_of_dim(R.ZERO))
        return {"kind": "to_none", "u": u, "x": draw(G.magnitudes(lo_exp=-30, hi_exp=30)), "ok": True}
    u = draw(G.expr_of_dim(draw(st.sampled_from([d for d in G.NONZERO_DIMS if d != G.RAD_DIM]))))
    return {"kind": "to_none", "u": u, "x": draw(G.magnitudes(lo_exp=-30, hi_exp=30)), "ok": False}


@st.composite
def unit_object_case(draw):
    """attributes of one Unit() object are fresh quantities every time: converting one in place does not change what the
    attribute delivers next"""
    dim = draw(st.sampled_from(G.NONZERO_DIMS))
    plain = [a for a in G.GROUPS_PLAIN[dim] if a[0] == "" and a[1].isidentifier()]
    if not plain:
        dim = G.NONZERO_DIMS[0]
        plain = [a for a in G.GROUPS_PLAIN[dim] if a[0] == "" and a[1].isidentifier()] or [("", "m")]
    sym = draw(st.sampled_from(plain))[1]
    return {"kind": "unit_object", "sym": sym, "other": draw(G.expr_of_dim(R.atom_dim(sym))),
            "src": draw(G.expr_of_dim(R.atom_dim(sym))), "x": draw(G.magnitudes(lo_exp=-30, hi_exp=30))}


def strategies(tier):
    return {
        "unit_object": (unit_object_case(), 200, 4000),
        "typed_input": (typed_case(), 300, 6000),
        "to_none": (to_none_case(), 200, 4000),
        "rankine": (rankine_case(), 200, 4000),
        "convert": (convert_case(), 2500, 60000),
        "system": (system_case(), 400, 8000),
        "rebase_mix": (rebase_mix_case(), 150, 2500),
        "recip": (recip_case(), 600, 15000),
        "rad": (rad_case(), 150, 2000),
        "refuse": (refuse_case(), 1000, 25000),
        "bare_refuse": (bare_refuse_case(), 400, 8000),
    }


def _arr(x):
    return np.asarray(x, dtype=float)


def _close(got, exp):
    g, e = _arr(got), _arr(exp)
    if g.shape != e.shape:
        return False
    return all(close(a, b, TOL, 1e-320) for a, b in zip(g.ravel().tolist(), e.ravel().tolist()))


def _range_ok(vals, factor=1.0):
    """every non-zero x keeps x*factor inside [1e-300, 1e300] (checked in log space: no silent underflow to 0)"""
    lf = math.log10(abs(factor)) if factor else -400.0
    return all(v == 0 or (-300 < math.log10(abs(v)) + lf < 300) for v in np.atleast_1d(_arr(vals)).tolist())


def _units_match(q, tree):
    """q.units() read with the dictionary equals the unit atoms of `tree`."""
    _, _, _, atoms, _ = R.evaluate(tree)
    want = {k: e for k, e in atoms.items() if e != 0}
    try:
        got = {k: e for k, e in R.parse_simple_expression(q.units()).items() if e != 0}
    except ValueError as ex:
        return f"units() {q.units()!r} unreadable: {ex}"
    return None if got == want else f"units() {q.units()!r} != atoms of {R.render(tree)!r}"


def _factors(*trees):
    out = []
    for t in trees:
        uf, nf, dim, atoms, lg = R.evaluate(t)
        if lg > 250:
            return None
        out.append(uf * nf)
    return out


def check_convert(case, v):
    from scinumtools.units import Quantity
    u, vv, w = case["u"], case["v"], case["w"]
    tu, tv, tw = R.render(u), R.render(vv), R.render(w)
    fs = _factors(u, vv, w)
    if fs is None:
        return v.discard("float-range")
    fu, fv, fw = fs
    x = case["x"]
    xa = _arr(x)
    if not (_range_ok(xa, fu) and _range_ok(xa, fu / fv) and _range_ok(xa, fu / fw)):
        return v.discard("float-range")
    exp = xa * fu / fv
    try:
        got = Quantity(x, tu).value(tv)
    except Exception as e:
        return v.fail("convert-raised", f"Quantity({x!r},{tu!r}).value({tv!r}) raised {e!r}")
    if not _close(got, exp):
        return v.fail("value", f"Quantity({x!r},{tu!r}).value({tv!r}) = {got!r}, expected {exp!r}")
    # the same object asked repeatedly (a query must give x*F(u)/F(v) every time, also after a query in another unit)
    q0 = Quantity(x, tu)
    for unit, e in ((tv, exp), (tw, xa * fu / fw), (tv, exp)):
        g = q0.value(unit)
        if not _close(g, e):
            return v.fail("value-repeat", f"q=Quantity({x!r},{tu!r}); repeated q.value({unit!r}) = {g!r}, expected {e!r}")
    q = q0.to(tv)
    if not _close(q.value(), exp):
        return v.fail("to", f"Quantity({x!r},{tu!r}).to({tv!r}).value() = {q.value()!r}, expected {exp!r}")
    e = _units_match(q, vv)
    if e:
        return v.fail("to-units", f"after to({tv!r}): {e}")
    back = q.to(tu)
    # the constructor folds a dimensionless compound into the number: compare in base values
    if not _close(_arr(back.value()) * R.factor_of_expression(back.units()), xa * fu):
        return v.fail("roundtrip", f"Quantity({x!r},{tu!r}).to({tv!r}).to({tu!r}) = {back.value()!r} {back.units()}")
    via = Quantity(x, tu).to(tw).to(tv)
    if not _close(via.value(), exp):
        return v.fail("via", f"Quantity({x!r},{tu!r}).to({tw!r}).to({tv!r}) = {via.value()!r}, direct {exp!r}")
    # rebase() re-expresses units of one dimension in the first of them (cm*m -> cm2): a conversion like any other - the
    # value in base units and the dimension stay what they were
    try:
        rb = Quantity(x, tu)
        d0, f0, v0 = R.dim_of_expression(rb.units()), R.factor_of_expression(rb.units()), _arr(rb.value())
    except Exception:
        rb = None
    if rb is not None and rb.units():
        try:
            rb.rebase()
            d1, f1 = R.dim_of_expression(rb.units() or ""), R.factor_of_expression(rb.units() or "")
        except Exception as e:
            return v.fail("rebase", f"Quantity({x!r},{tu!r}).rebase() raised {e!r}")
        if d1 != d0 or not _close(_arr(rb.value()) * f1, v0 * f0):
            return v.fail("rebase", f"Quantity({x!r},{tu!r}).rebase() = {rb.value()!r} {rb.units()}: dimension "
                                    f"{[str(c) for c in d1]} (was {[str(c) for c in d0]}), base value {_arr(rb.value()) * f1!r} (was {v0 * f0!r})")
        v.label("rebase_checked")
    k = case.get("k")
    if k:
        gq = Quantity(x, tu).to(Quantity(k, tv))
        if not _close(gq.value(), exp / k):
            return v.fail("to-quantity", f"Quantity({x!r},{tu!r}).to(Quantity({k},{tv!r})).value() = {gq.value()!r}, "
                                         f"expected {exp / k!r}")
        v.label("target_is_quantity")
    nz = bool(np.any(xa != 0))
    v.nt(tu != tv and fu != fv and nz)
    v.label("convert", "array" if isinstance(x, list) else "scalar")
    if not nz:
        v.label("zero")
    if "(" in tu + tv or "*" in tu + tv or "/" in tu + tv:
        v.label("compound")
    if "[" in tu + tv:
        v.label("constant")


def check_recip(case, v):
    from scinumtools.units import Quantity
    u, vv = case["u"], case["v"]
    tu, tv = R.render(u), R.render(vv)
    fs = _factors(u, vv)
    if fs is None:
        return v.discard("float-range")
    fu, fv = fs
    xa = _arr(case["x"])
    if not (_range_ok(xa, fu) and _range_ok(xa, fu * fv)):
        return v.discard("float-range")
    exp = 1.0 / (xa * fu) / fv
    if case.get("err"):
        try:
            ge = Quantity(case["x"], tu, rele=case["err"] * 100).to(tv).value()
        except Exception as e:
            return v.fail("recip-raised", f"Quantity({case['x']!r},{tu!r},rele={case['err'] * 100}).to({tv!r}) raised {e!r}")
        if not _close(ge, exp):
            return v.fail("recip-value", f"Quantity({case['x']!r},{tu!r},rele={case['err'] * 100}).to({tv!r}) = {ge!r}, "
                                         f"expected {exp!r} (the uncertainty moved the value)")
        v.label("recip_with_uncertainty")
    try:
        got = Quantity(case["x"], tu).value(tv)
    except Exception as e:
        return v.fail("recip-raised", f"Quantity({case['x']!r},{tu!r}).value({tv!r}) raised {e!r}")
    if not _close(got, exp):
        return v.fail("recip-value", f"Quantity({case['x']!r},{tu!r}).value({tv!r}) = {got!r}, expected {exp!r}")
    q = Quantity(case["x"], tu).to(tv)
    if not _close(q.value(), exp):
        return v.fail("recip-to", f"to({tv!r}) = {q.value()!r}, expected {exp!r}")
    back = q.to(tu)
    if not _close(_arr(back.value()), xa):
        return v.fail("recip-roundtrip", f"{tu}->{tv}->{tu}: {back.value()!r} != {case['x']!r}")
    k = case.get("k")
    if k:
        gq = Quantity(case["x"], tu).to(Quantity(k, tv))
        if not _close(gq.value(), exp / k):
            return v.fail("to-quantity", f"Quantity({case['x']!r},{tu!r}).to(Quantity({k},{tv!r})).value() = "
                                         f"{gq.value()!r}, expected {exp / k!r}")
        v.label("target_is_quantity")
    v.nt(True)
    v.label("recip")


def check_rad(case, v):
    from scinumtools.units import Quantity
    xa = _arr(case["x"])
    f = 1.0 if case["v"].startswith("rad") else 1e-3
    exp = xa / f
    if not _range_ok(xa, 1 / f):
        return v.discard("float-range")
    try:
        got = Quantity(case["x"]).value(case["v"])
        q = Quantity(case["x"]).to(case["v"])
    except Exception as e:
        return v.fail("rad-raised", f"Quantity({case['x']!r}) -> {case['v']}: {e!r}")
    if not _close(got, exp) or not _close(q.value(), exp):
        return v.fail("rad-value", f"Quantity({case['x']!r}) in {case['v']} = {got!r} / {q.value()!r}, expected {exp!r}")
    if q.units() != case["v"].split("2:2")[0].split("3:3")[0]:
        return v.fail("rad-units", f"units {q.units()!r}")
    v.nt(bool(np.any(xa != 0)))
    v.label("rad")


def check_refuse(case, v):
    from scinumtools.units import Quantity
    u, vv = case["u"], case["v"]
    tu, tv = R.render(u), R.render(vv)
    du = R.evaluate(u)[2]
    dv = R.evaluate(vv)[2]
    named_nodim = u[0] == "u" and (u[1], u[2]) in set(G.NODIM_FACTOR)
    if all(x == 0 for x in du) and dv == G.RAD_DIM and not named_nodim:
        return v.discard("number-to-rad-is-legal")
    if _factors(u, vv) is None:
        return v.discard("float-range")
    q = Quantity(case["x"], tu)
    before_v, before_u = np.array(q.value(), dtype=float, copy=True), q.units()
    for name, fn in (("value", lambda: q.value(tv)), ("to", lambda: q.to(tv))):
        try:
            r = fn()
        except Exception:
            pass
        else:
            return v.fail("refuse-accepted", f"Quantity({case['x']!r},{tu!r}).{name}({tv!r}) returned {r!r} "
                                             f"although the dimensions differ")
        after = np.array(q.value(), dtype=float)
        if q.units() != before_u or after.shape != before_v.shape or not np.array_equal(after, before_v, equal_nan=True):
            return v.fail("refuse-mutated", f"after refused {name}({tv!r}): {q.value()!r} {q.units()!r}, "
                                            f"before {before_v!r} {before_u!r}")
    v.nt(True)
    v.label("refuse")


def check_bare_refuse(case, v):
    from scinumtools.units import Quantity
    tv = case["v"]
    if "(" in tv:
        return v.discard("parenthesised-target")
    atoms = R.atoms_of_expression_text(tv)
    if all(s == "rad" for (_p, s) in atoms) and sum(atoms.values()) == 1 and len(atoms) == 1:
        return v.discard("number-to-rad-is-legal")      # radians (any prefix) once everything else has cancelled
    if not atoms:
        return v.discard("dimensionless-target")
    q = Quantity(case["x"], "m") / Quantity(2.0, "cm") if case["ratio"] else Quantity(case["x"])
    before_v, before_u = np.array(q.value(), dtype=float, copy=True), q.units()
    for name, fn in (("value", lambda: q.value(tv)), ("to", lambda: q.to(tv))):
        try:
            r = fn()
        except Exception:
            pass
        else:
            return v.fail("refuse-accepted", f"a bare number {q!r} .{name}({tv!r}) returned {r!r}; only radians are allowed")
        after = np.array(q.value(), dtype=float)
        if q.units() != before_u or not np.array_equal(after, before_v, equal_nan=True):
            return v.fail("refuse-mutated", f"after refused {name}({tv!r}): {q.value()!r} {q.units()!r}")
    v.nt(True)
    v.label("bare_refuse")


def check_unit_object(case, v):
    from scinumtools.units import Quantity, Unit
    sym, t_other, t_src = case["sym"], R.render(case["other"]), R.render(case["src"])
    fs = _factors(G.atom("", sym), case["other"], case["src"])
    if fs is None:
        return v.discard("float-range")
    f_sym, _f_other, f_src = fs
    xa = _arr(case["x"])
    if not _range_ok(xa, f_src / f_sym):
        return v.discard("float-range")
    U = Unit()
    try:
        first = getattr(U, sym)
        first.to(t_other)                       # explicit in-place conversion of the object handed out
        r = Quantity(case["x"], t_src).to(getattr(U, sym))
    except Exception as e:
        return v.fail("convert-raised", f"U = Unit(); U.{sym}.to({t_other!r}); Quantity({case['x']!r},{t_src!r}).to(U.{sym}) raised {e!r}")
    if not _close(r.value(), xa * f_src / f_sym) or r.units() != sym:
        return v.fail("value", f"U = Unit(); U.{sym}.to({t_other!r}); Quantity({case['x']!r},{t_src!r}).to(U.{sym}) = "
                               f"{r.value()!r} {r.units()}, expected {xa * f_src / f_sym!r} {sym}")
    v.nt(True)
    v.label("unit_object")


def check_typed(case, v):
    from decimal import Decimal
    from scinumtools.units import Quantity
    u, vv = case["u"], case["v"]
    tu, tv = R.render(u), R.render(vv)
    fs = _factors(u, vv)
    if fs is None:
        return v.discard("float-range")
    fu, fv = fs
    if case["dtype"] == "decimal":
        x = Decimal(case["x"])
        xa = np.asarray(float(x))
        shown = f"Decimal({case['x']!r})"
    else:
        x = np.array(case["x"], dtype=case["dtype"])
        xa = x.astype(float)
        shown = f"np.array({case['x']!r}, dtype={case['dtype']})"
    exp = 1.0 / (xa * fu) / fv if case["recip"] else xa * fu / fv
    if not np.all(np.isfinite(exp)) or np.any(np.abs(exp) > 1e250) or np.any((np.abs(exp) < 1e-250) & (exp != 0)):
        return v.discard("float-range")
    for name in ("value", "to"):
        try:
            q = Quantity(x, tu)
            got = q.value(tv) if name == "value" else q.to(tv).value()
            got = np.asarray(got, dtype=float) if not isinstance(got, Decimal) else np.asarray(float(got))
        except Exception as e:
            return v.fail("convert-raised", f"Quantity({shown},{tu!r}).{name}({tv!r}) raised {e!r}")
        if not _close(got, exp):
            return v.fail("value", f"Quantity({shown},{tu!r}).{name}({tv!r}) = {got!r}, expected {exp!r}")
    v.nt(True)
    v.label("typed_" + case["dtype"], "recip" if case["recip"] else "linear")


def check_to_none(case, v):
    from scinumtools.units import Quantity
    tu = R.render(case["u"])
    fs = _factors(case["u"])
    if fs is None:
        return v.discard("float-range")
    xa = _arr(case["x"])
    if not _range_ok(xa, fs[0]):
        return v.discard("float-range")
    q = Quantity(case["x"], tu)
    before_v, before_u = np.array(q.value(), dtype=float, copy=True), q.units()
    if case["ok"]:
        try:
            r = Quantity(case["x"], tu).to(None)
        except Exception as e:
            return v.fail("convert-raised", f"Quantity({case['x']!r},{tu!r}).to(None) raised {e!r}")
        # whatever dimensionless unit is left on the result, the number it stands for is x*F(u)
        base = _arr(r.value()) * (R.factor_of_expression(r.units()) if r.units() else 1.0)
        if not _close(base, xa * fs[0]):
            return v.fail("value", f"Quantity({case['x']!r},{tu!r}).to(None) = {r.value()!r} {r.units()!r}, expected the "
                                   f"number {xa * fs[0]!r}")
        if r.units() is not None:
            return v.fail("to-units", f"Quantity({case['x']!r},{tu!r}).to(None) still carries the unit {r.units()!r}")
        v.nt(True)
        return v.label("to_none_dimensionless")
    try:
        r = q.to(None)
    except Exception:
        pass
    else:
        return v.fail("refuse-accepted", f"Quantity({case['x']!r},{tu!r}).to(None) returned {r!r} although {tu} has a dimension")
    after = np.array(q.value(), dtype=float)
    if q.units() != before_u or not np.array_equal(after, before_v, equal_nan=True):
        return v.fail("refuse-mutated", f"after refused to(None): {q.value()!r} {q.units()!r}")
    v.nt(True)
    v.label("to_none_refused")


def check(case):
    v = Verdict()
    try:
        {"bare_refuse": check_bare_refuse, "convert": check_convert, "recip": check_recip, "rad": check_rad, "refuse": check_refuse, "typed": check_typed, "to_none": check_to_none, "unit_object": check_unit_object}[case["kind"]](case, v)
    finally:
        if not R.tables_pristine():
            R.restore_tables()
    return v
