"""C16 — parse() returns only environments that satisfy every declared constraint."""
import itertools
import json

from hypothesis import strategies as st

from ..core import Verdict, close
from ..refs import dip_ref as D
from ..refs import units_ref as R

ID = "C16"
RULE = (
    'One constrained node per program (int / float with units, str, bool; scalar, or 1-2-D int array for '
    'dimension bounds; definition or declaration) with any subset of: per-line options and !options lists (units '
    'of the same dimension), a !condition built from 1-3 comparisons of {?} with unit-bearing literals joined by '
    '&& or || (single comparisons included; thresholds as literals - fractional ones against int nodes too - or '
    'held by another node of the same type in another unit), an anchored !format, array dimension bounds; the '
    'final value is given directly or by 1-2 later modifications and is placed ON a boundary (equal, or equal '
    'after unit conversion; only with the tolerant operators == != <= >=), NEAR it (1e-4 relative away) or OFF '
    'it. The truth of every constraint is known by construction (never computed with re or the logical solver). '
    'Oracle: all satisfied -> parse() returns and the value equals the model; any violated -> parse() raises. '
    'Non-trivial: >=2 constraint kinds on the node, or an option/threshold in another unit, or a boundary '
    '(ON/NEAR) value. Also: the mirror image of a numeric case (all numbers negated, inequalities reversed); two '
    '!condition lines on one node; typed re-definitions of arrays with dimensions of their own; array values '
    'returned by a registered function; a !condition that refers to another node, with either node assigned last, '
    'in the same text or in a second parse on top of the returned environment. Later rounds: !format on string '
    'arrays (refusal direction only) and on multi-line values; options given in a custom unit; || next to && '
    'without parentheses. Rounds 7-8: zero as option, value and threshold; constraints written below a '
    'modification; integer nodes with options in a custom unit; the same condition text on two nodes; a refusal '
    'has to come from parse(). Round 9: the empty string among the options; a node compared with another node '
    'and, in the same condition, with plain numbers. Round 10: large whole numbers as options of integer nodes (a value one off is not an option). Distinct = distinct rendered text.'
)
ASSUMPTIONS = [
    "values stay in [0.1, 1e4] (plus a few of 1e-7..1e-10) and are never inside [0.3,3]x the library's 1e-6 relative comparison tolerance of a threshold",
    "strict < > and != are not probed at exact equality reached through a unit conversion (decided by float rounding)",
    "formats are anchored with ^...$ (re.match only anchors the start)",
]
NT_FLOOR = 0.4
# coverage-guided complement (sv/fuzz.py): strategy -> number of cases
FUZZ = {"thorough": {"numeric": 15000}}
_uid = itertools.count()

DIMS = {"length": ["m", "cm", "km", "mm"], "time": ["s", "min", "ms"], "mass": ["kg", "g"], "energy": ["J", "erg", "kJ"]}
FORMATS = [  # (regex, matching values, non-matching values)
    ("^[a-z]+$", ["abc", "z", "hello"], ["Abc", "ab1", "a b", "abc!"]),
    ("^[A-Z][a-z]*$", ["John", "A", "Xy"], ["john", "JOhn", "J0hn", "John Smith"]),
    ("^[0-9]{3}$", ["123", "000"], ["12", "1234", "12a"]),
    ("^v[0-9]+\\.[0-9]+$", ["v1.0", "v12.34"], ["1.0", "v1", "v1.0b", "v.5"]),
    ("^(red|green|blue)$", ["red", "blue"], ["yellow", "redd", "Red"]),
]
WORDS = ["cat", "dog", "horse", "cow", "abc", "John", "red", "v1.0", "123"]


def F(u):
    return R.factor_of_expression_text(u)


def fmt(x):
    """decimal text that float() reads back exactly"""
    return repr(float(x))


@st.composite
def numeric_case(draw):
    is_int = draw(st.booleans())
    dim = draw(st.sampled_from(sorted(DIMS))) if draw(st.integers(0, 3)) else None
    unit = draw(st.sampled_from(DIMS[dim])) if dim else None
    if is_int:
        base = draw(st.integers(1, 5000))
    else:
        base = draw(st.one_of(st.integers(1, 5000).map(float), st.floats(0.1, 1e4).map(lambda x: float(f"{x:.6g}")),
                              st.sampled_from([3e-9, 4.5e-10, 2e-7])))      # tiny magnitudes: the tolerance is relative
    # per-line options and !options lists combine into ONE option set (documented), so they form one constraint
    kinds = draw(st.sets(st.sampled_from(["options", "condition"]), min_size=1, max_size=2))
    opt_form = draw(st.sampled_from(["lines", "list", "both"]))
    sat = draw(st.booleans())                     # should the whole program be accepted?
    cons = []
    violated_one = False
    klist = sorted(kinds)
    bad_index = draw(st.integers(0, len(klist) - 1))

    def in_other_unit(val):
        """write `val` (definition units) in a random unit of the dimension -> (text, unit, exact?)"""
        if not dim or draw(st.booleans()):
            return (str(val) if is_int else fmt(val)), (unit if dim and draw(st.booleans()) else None), True
        u2 = draw(st.sampled_from(DIMS[dim]))
        if u2 == unit:
            return (str(val) if is_int else fmt(val)), u2, True      # no arithmetic on the way: the very same number
        v2 = val * F(unit) / F(u2)
        txt = fmt(v2)
        if is_int and float(v2) != int(v2):
            return str(val), None, True
        if is_int:
            txt = str(int(v2))
        return txt, u2, (u2 == unit)

    for i, k in enumerate(klist):
        ok = sat or i != bad_index
        if k == "options":
            n = draw(st.integers(1, 4))
            others = []
            while len(others) < n:
                o = base + draw(st.integers(1, 50)) * draw(st.sampled_from([1, -1, 7])) if is_int else \
                    base * draw(st.sampled_from([0.5, 2.0, 1.5, 3.0, 10.0, 0.1, 1.0001, 0.9999]))
                if o <= 0 or (is_int and o == base):
                    continue
                others.append(o)
            vals = list(others)
            if ok:
                vals.insert(draw(st.integers(0, len(vals))), base)
            if opt_form == "both" and len(vals) >= 2:
                cut = draw(st.integers(1, len(vals) - 1))
                line_vals, list_vals = vals[:cut], vals[cut:]
            elif opt_form == "list":
                line_vals, list_vals = [], vals
            else:
                line_vals, list_vals = vals, []
            if line_vals:
                texts = [in_other_unit(x) for x in line_vals]
                cons.append({"k": "options", "opts": [[t, u] for t, u, _e in texts]})
            if list_vals:
                # one unit for the whole list
                u2 = draw(st.sampled_from(DIMS[dim])) if dim else None
                conv = [x * F(unit) / F(u2) if dim else x for x in list_vals]
                if is_int and any(float(c) != int(c) for c in conv):
                    u2, conv = unit, list(list_vals)
                cons.append({"k": "options_list", "vals": [str(int(c)) if is_int else fmt(c) for c in conv], "unit": u2})
        else:
            ncmp = draw(st.integers(1, 3))
            joiner = draw(st.sampled_from(["&&", "||"]))
            want = ok
            comps = []
            # truth values of the individual comparisons so that the joined result equals `want`
            if joiner == "&&":
                truths = [True] * ncmp
                if not want:
                    truths[draw(st.integers(0, ncmp - 1))] = False
                    truths = [t if t is False else draw(st.booleans()) for t in truths] if ncmp > 1 else truths
                    if all(truths):
                        truths[0] = False
            else:
                truths = [False] * ncmp
                if want:
                    truths[draw(st.integers(0, ncmp - 1))] = True
            for t in truths:
                place = draw(st.sampled_from(["on", "near", "near", "off", "off"]))
                if place == "on":
                    op = draw(st.sampled_from(["==", "<=", ">="])) if t else "!="
                    thr = base
                else:
                    rel = 1e-4 if place == "near" else draw(st.sampled_from([0.5, 0.1, 2.0]))
                    if is_int:
                        # 0.5: a fractional literal against an integer node (3 < 3.5, 2 m < 250 cm)
                        delta = draw(st.sampled_from([1, 0.5])) if place == "near" else draw(st.integers(2, 40))
                        above = draw(st.booleans())
                        thr = base + delta if above else base - delta
                    else:
                        above = draw(st.booleans())
                        thr = base * (1 + rel) if above else base * (1 - rel if rel < 1 else 0.5)
                    # x < thr  is true iff thr above
                    if t:
                        op = draw(st.sampled_from(["<", "<=", "!="])) if above else draw(st.sampled_from([">", ">=", "!="]))
                    else:
                        op = draw(st.sampled_from([">", ">=", "=="])) if above else draw(st.sampled_from(["<", "<=", "=="]))
                txt, u2, exact = in_other_unit(thr)
                if place == "on" and not exact and op in ("<", ">"):
                    # == != <= >= are tolerant; the strict operators at an equality reached through a unit
                    # conversion are decided by float rounding: write the threshold in the definition unit instead
                    txt, u2 = (str(thr) if is_int else fmt(thr)), None
                # the threshold may live in another node of the same type (node-vs-node comparison, converted in place)
                via_node = draw(st.integers(0, 2)) == 0 and not (is_int and not txt.lstrip("-").isdigit())
                if via_node and dim and u2 is None:
                    u2 = unit
                comps.append({"op": op, "thr": txt, "unit": u2, "place": place, "flip": draw(st.booleans()),
                              "node": via_node})
            cons.append({"k": "condition", "comps": comps, "join": joiner, "paren": draw(st.booleans())})
    nmods = draw(st.integers(0, 2))
    trail = []
    for _ in range(nmods):
        trail.append(base * 3 + 1 if not is_int else base + 977)     # intermediate values may violate: only the final counts
    tkw = draw(st.sampled_from(["int", "int64", "uint32"] if is_int else ["float", "float32"]))
    # mirror image: every number negated and every inequality reversed (bounds and values below zero)
    neg = tkw != "uint32" and draw(st.integers(0, 3)) == 0
    return {"kind": "numeric", "int": is_int, "type": tkw,
            "unit": unit, "dim": dim, "final": base, "cons": cons, "expect_ok": sat, "trail": trail,
            "declared": draw(st.integers(0, 4)) == 0 and nmods > 0, "neg": neg}


@st.composite
def string_case(draw):
    kinds = draw(st.sets(st.sampled_from(["options", "format", "condition"]), min_size=1, max_size=3))
    sat = draw(st.booleans())
    klist = sorted(kinds)
    bad = draw(st.integers(0, len(klist) - 1))
    # choose a value satisfying everything it must: start from the format if present
    fmt_i = draw(st.integers(0, len(FORMATS) - 1))
    regex, good, badvals = FORMATS[fmt_i]
    cons = []
    value = None
    if "format" in kinds:
        ok = sat or klist.index("format") != bad
        value = draw(st.sampled_from(good if ok else badvals))
        cons.append({"k": "format", "regex": regex})
    if value is None:
        value = draw(st.sampled_from(WORDS))
    for i, k in enumerate(klist):
        ok = sat or i != bad
        if k == "options":
            others = [w for w in WORDS if w != value][:draw(st.integers(1, 4))]
            vals = others + ([value] if ok else [])
            cons.append({"k": "options" if draw(st.booleans()) else "options_list_str", "opts": [[v, None] for v in vals], "vals": vals})
        elif k == "condition":
            if ok:
                c = draw(st.sampled_from([("==", value), ("!=", value + "x")]))
            else:
                c = draw(st.sampled_from([("!=", value), ("==", value + "x")]))
            cons.append({"k": "strcond", "op": c[0], "rhs": c[1]})
    return {"kind": "string", "final": value, "cons": cons, "expect_ok": sat, "trail": draw(st.lists(st.sampled_from(WORDS), max_size=2)),
            "quote": draw(st.sampled_from(["'", '"']))}


@st.composite
def bool_case(draw):
    value = draw(st.booleans())
    sat = draw(st.booleans())
    op, rhs = draw(st.sampled_from([("==", value), ("!=", not value)])) if sat else draw(st.sampled_from([("!=", value), ("==", not value)]))
    return {"kind": "bool", "final": value, "op": op, "rhs": rhs, "expect_ok": sat, "via_mod": draw(st.booleans())}


@st.composite
def array_case(draw):
    rank = draw(st.sampled_from([1, 1, 2]))
    shape = [draw(st.integers(1, 4)) for _ in range(rank)]
    sat = draw(st.booleans())
    bad_dim = draw(st.integers(0, rank - 1))
    dims = []
    for d, n in enumerate(shape):
        ok = sat or d != bad_dim
        if ok:
            dims.append(draw(st.sampled_from([f"{n}", ":", f"{n}:", f":{n}", f"{max(n - 1, 0)}:{n}", f"{n}:{n + 2}", f"{max(n - 2, 0)}:{n + 1}"])))
        else:
            dims.append(draw(st.sampled_from([f"{n + 1}", f"{n + 1}:", f":{n - 1}" if n > 1 else f"{n + 1}:", f"{n + 1}:{n + 3}",
                                              f"0:{n - 1}" if n > 1 else f"{n + 2}"])))
    short = draw(st.integers(0, 5)) == 0
    if short:
        # the value lacks a declared axis altogether: that dimension cannot lie within its bounds
        dims = dims + [draw(st.sampled_from(["2", "1:", ":3", "2:4"]))]
        sat = False
    return {"kind": "array", "shape": shape, "dims": ",".join(dims), "expect_ok": sat, "via_mod": draw(st.booleans()),
            "rank_short": short,
            # the value may also come from a registered function that returns a numpy array or a nested list
            "via_fn": draw(st.sampled_from([None, None, "ndarray", "list"]))}


@st.composite
def decl_case(draw):
    assigned = draw(st.booleans())
    return {"kind": "decl", "type": draw(st.sampled_from(["int", "float", "str", "bool"])), "assigned": assigned,
            "expect_ok": assigned, "options": draw(st.booleans())}


@st.composite
def imported_case(draw):
    fam = draw(st.sampled_from(["options", "condition", "format", "cond_units"]))
    ok = draw(st.booleans())
    if fam == "options":
        node, cons, good, bad = "x int = 2", ["= 1", "= 2", "= 3"], "3", "7"
    elif fam == "condition":
        node, cons, good, bad = "x int = 2", ['!condition ("{?} < 5")'], "4", "9"
    elif fam == "format":
        node, cons, good, bad = "x str = abc", ["!format '^[a-z]+$'"], "xyz", "X1"
    else:
        node, cons, good, bad = "x float = 2 m", ['!condition ("{?} > 0 m && {?} <= 300 cm")'], "250 cm", "-1 m"
    return {"kind": "imported", "node": node, "lines": cons, "assign": good if ok else bad, "expect_ok": ok,
            "how": draw(st.sampled_from(["children", "single", "all"]))}


@st.composite
def same_literal_case(draw):
    dim = draw(st.sampled_from(["length", "time"]))     # modest factor ratios: numpy's absolute tolerance stays irrelevant
    u1, u2 = draw(st.lists(st.sampled_from(DIMS[dim]), min_size=2, max_size=2, unique=True))
    if F(u2) < F(u1):
        u1, u2 = u2, u1                                  # define in the smaller unit so that every value is >= 1
    lit = draw(st.sampled_from(["2", "5", "10", "1"]))
    form = draw(st.sampled_from(["lines", "lists"]))
    ok = draw(st.booleans())
    return {"kind": "same_literal", "unit": u1, "u2": u2, "lit": lit, "form": form, "expect_ok": ok,
            "which": draw(st.sampled_from([u1, u2]))}


@st.composite
def cross_node_case(draw):
    """a condition that refers to ANOTHER node: the constraint must hold for the returned environment whichever of the
    two nodes was assigned last, in the same text or in a later parse on top of the returned environment"""
    dim = draw(st.sampled_from(sorted(DIMS)))
    u, ul, u2 = (draw(st.sampled_from(DIMS[dim])) for _ in range(3))
    size = draw(st.sampled_from([5.0, 1.0, 20.0, 0.5]))
    op = draw(st.sampled_from(["<", "<=", ">", ">="]))
    ok = draw(st.booleans())
    # limit is written in unit ul / u2 such that size (op) limit is true at first and true/false at the end
    above = op in ("<", "<=")
    first = size * (2.0 if above else 0.5)
    last = size * ((3.0 if above else 0.25) if ok else (0.5 if above else 2.0))
    which = draw(st.sampled_from(["limit", "limit", "size"]))
    conv = lambda val, uu: fmt(val * F(u) / F(uu))
    lines = [f"limit float = {conv(first, ul)} {ul}", f"size float = {fmt(size)} {u}", f'  !condition ("{{?}} {op} {{?limit}}")']
    if which == "limit" and draw(st.booleans()):
        # the same node is mentioned again and compared with plain numbers (taken in its own unit): every mention sees
        # the same value, whatever the comparison with the other node did before
        lines[2] = f'  !condition ("{{?}} {op} {{?limit}} && {{?}} > {fmt(size * 0.5)} && {{?}} < {fmt(size * 2)}")'
    if which == "limit":
        change = f"limit = {conv(last, u2)} {u2}"
    else:
        # move size instead: beyond / within the unchanged limit
        newsize = first * ((0.5 if above else 2.0) if ok else (2.0 if above else 0.5))
        change = f"size = {conv(newsize, u2)} {u2}"
    two_stage = draw(st.booleans())
    return {"kind": "cross_node", "lines": lines, "change": change, "stage2": change if two_stage else None, "expect_ok": ok}


@st.composite
def two_conditions_case(draw):
    """two !condition lines on one node: whether the second replaces the first or both must hold, a node that satisfies
    the first and violates the second is refused, and one that satisfies both is accepted"""
    v_ = draw(st.integers(-20, 20))
    lo = v_ + draw(st.integers(1, 5))            # v < lo  is true
    hi = v_ + draw(st.integers(6, 30))           # v > hi  is false
    first = draw(st.sampled_from([f"{{?}} < {lo} || {{?}} > {hi}", f"{{?}} > {hi} || {{?}} < {lo}", f"{{?}} < {lo}"]))
    ok = draw(st.booleans())
    second = f"{{?}} > {v_ - draw(st.integers(1, 9))}" if ok else f"{{?}} > {v_ + draw(st.integers(0, 4))}"
    third = draw(st.sampled_from([None, None, f"{{?}} != {v_ + 100}"]))
    lines = [f"x int = {v_}", f'  !condition ("{first}")', f'  !condition ("{second}")']
    if third and ok:
        lines.append(f'  !condition ("{third}")')
    via_mod = draw(st.booleans())
    if via_mod:
        lines[0] = f"x int = {v_ + 1000}"
        lines.append(f"x = {v_}")
    return {"kind": "lines", "lines": lines, "expect_ok": ok, "what": "two_conditions"}


@st.composite
def array_redef_case(draw):
    """a typed re-definition states dimensions of its own; the bounds of the ORIGINAL declaration still apply"""
    lo, hi = draw(st.sampled_from([(2, 3), (1, 2), (2, 4)]))
    n = draw(st.integers(1, hi + 2))
    ok = lo <= n <= hi
    own = draw(st.sampled_from([str(n), ":", f"{n}:", f":{n}"]))
    lit = lambda k: "[" + ",".join(str(i) for i in range(k)) + "]"
    lines = [f"x int[{lo}:{hi}] = {lit(lo)}", f"x int[{own}] = {lit(n)}"]
    return {"kind": "lines", "lines": lines, "expect_ok": ok, "what": "array_redefinition",
            "stage2": lines.pop() if draw(st.booleans()) else None}


@st.composite
def custom_unit_options_case(draw):
    """options written in a custom unit defined in the same text (or with DIP.add_unit): compared after conversion to the
    node's unit like any other"""
    fac = draw(st.sampled_from([2, 5, 0.5]))
    base = draw(st.sampled_from(["m", "cm", "s"]))
    opts = draw(st.lists(st.sampled_from([1, 2, 3, 4, 10]), min_size=1, max_size=3, unique=True))
    ok = draw(st.booleans())
    is_int = draw(st.booleans())
    if is_int:
        # an integer node: the custom unit is a whole number of base units, the value a whole number as well
        fac = draw(st.sampled_from([2, 5, 12]))
    val = (draw(st.sampled_from(opts)) if ok else max(opts) + (1 if is_int else 1.5)) * fac
    lines = [f"$unit len = {fac} {base}", (f"x int = {int(val)} {base}" if is_int else f"x float = {fmt(val)} {base}")]
    if draw(st.booleans()):
        lines += [f"  = {o} [len]" for o in opts]
    else:
        lines.append("  !options [" + ",".join(str(o) for o in opts) + "] [len]")
    return {"kind": "lines", "lines": lines, "expect_ok": ok, "what": "options_in_custom_unit" + ("_int_node" if is_int else "")}


@st.composite
def format_array_case(draw):
    """a string array with !format: an environment is never returned with an element that does not match (whether a
    fully matching array is accepted is not claimed: !format is documented for scalar strings)"""
    good = ["John", "Paul", "Anna"]
    bad = draw(st.sampled_from(["7-up", "john", "J0hn", ""]))
    n = draw(st.integers(1, 3))
    vals = [draw(st.sampled_from(good)) for _ in range(n)]
    vals[draw(st.integers(0, n - 1))] = bad
    lit = json.dumps(vals, separators=(",", ":"))
    lines = [f"names str[{n}] = {lit}", "  !format '^[A-Z][a-z]+$'"]
    if draw(st.booleans()):
        lines = [f"names str[{n}] = " + json.dumps(good[:n] if n <= 3 else good, separators=(",", ":")), "  !format '^[A-Z][a-z]+$'",
                 f"names = {lit}"]
    return {"kind": "lines", "lines": lines, "expect_ok": False, "what": "format_on_array"}


@st.composite
def format_multiline_case(draw):
    """an anchored !format constrains the WHOLE text of a block value, not its first line"""
    first = draw(st.sampled_from(["abc", "hello", "z"]))
    ok = draw(st.booleans())
    rest = draw(st.sampled_from(["def", "xyz"])) if ok else draw(st.sampled_from(["DEF 123", "Abc", "a1"]))
    regex = "^[a-z]+\\n[a-z]+$" if ok else draw(st.sampled_from(["^[a-z]+$", "^[a-z]+\\n[a-z]+$"]))
    lines = ['t str = """', first, rest, '"""', f"  !format '{regex}'"]
    return {"kind": "lines", "lines": lines, "expect_ok": ok, "what": "format_multiline"}


@st.composite
def mixed_joiners_case(draw):
    """&& binds tighter than ||, also in a !condition: 'A || B && C' with A true holds whatever B && C is, and
    'A && B || C' with C true holds as well"""
    x = draw(st.integers(2, 50))
    T = lambda: draw(st.sampled_from([f"{{?}} > {x - 1}", f"{{?}} == {x}", f"{{?}} < {x + 5}"]))
    Fa = lambda: draw(st.sampled_from([f"{{?}} > {x + 10}", f"{{?}} < 0", f"{{?}} == {x + 1}"]))
    form = draw(st.sampled_from(["T||X&&F", "F&&X||T", "F||T&&F", "T&&F||F", "F||F&&T", "T||F&&F"]))
    expr, ok = {
        "T||X&&F": (f"{T()} || {draw(st.sampled_from([T(), Fa()]))} && {Fa()}", True),
        "F&&X||T": (f"{Fa()} && {draw(st.sampled_from([T(), Fa()]))} || {T()}", True),
        "F||T&&F": (f"{Fa()} || {T()} && {Fa()}", False),
        "T&&F||F": (f"{T()} && {Fa()} || {Fa()}", False),
        "F||F&&T": (f"{Fa()} || {Fa()} && {T()}", False),
        "T||F&&F": (f"{T()} || {Fa()} && {Fa()}", True),
    }[form]
    lines = [f"x int = {x}", f'  !condition ("{expr}")']
    return {"kind": "lines", "lines": lines, "expect_ok": ok, "what": "mixed_joiners"}


@st.composite
def zero_case(draw):
    """the number zero as an option, as a value and as a threshold: a listed 0 is an option like any other, a value of 0
    is checked like any other"""
    is_int = draw(st.booleans())
    unit = draw(st.sampled_from([None, None, "m", "s"]))
    u = f" {unit}" if unit else ""
    z = "0" if is_int else draw(st.sampled_from(["0", "0.0", "0e0"]))
    pool = [1, 2, 5, 12] if is_int else [0.5, 1.0, 2.5, 12.0]
    others = draw(st.lists(st.sampled_from(pool), min_size=1, max_size=3, unique=True))
    zero_listed = draw(st.booleans())
    what = draw(st.sampled_from(["zero", "zero", "listed", "unlisted"]))
    val = {"zero": z, "listed": str(others[0]), "unlisted": "7"}[what]
    fam = draw(st.sampled_from(["options", "options", "condition"]))
    if fam == "options":
        opts = [str(o) for o in others]
        if zero_listed:
            opts.insert(draw(st.integers(0, len(opts))), z)
        ok = (what == "zero" and zero_listed) or what == "listed"
        form = draw(st.sampled_from(["list", "lines"]))
        cons = ["  !options [" + ",".join(opts) + "]" + u] if form == "list" else [f"  = {o}{u}" for o in opts]
    else:
        op, truth0 = draw(st.sampled_from([(">=", True), ("==", True), ("<=", True), (">", False), ("!=", False), ("<", False)]))
        cons = [f'  !condition ("{{?}} {op} {z}{u}")']
        num = 0.0 if what == "zero" else float(val)
        ok = {">=": num >= 0, "==": num == 0, "<=": num <= 0, ">": num > 0, "!=": num != 0, "<": num < 0}[op]
    tkw = "int" if is_int else "float"
    how = draw(st.sampled_from(["definition", "modification", "declaration"]))
    if how == "definition":
        lines = [f"x {tkw} = {val}{u}"] + cons
    elif how == "modification":
        lines = [f"x {tkw} = {others[0]}{u}"] + cons + [f"x = {val}{u}"]
    else:
        lines = [f"x {tkw}{u}"] + cons + [f"x = {val}{u}"]
    return {"kind": "lines", "lines": lines, "expect_ok": ok, "what": "zero_as_option_value_or_threshold"}


@st.composite
def whole_number_options_case(draw):
    """integer nodes with large whole numbers as options, written in the node's own unit (no conversion takes part): a
    value that is none of the listed whole numbers is not an option, however close it lies in relative terms - the
    tolerance the documentation gives belongs to the comparison operators of logical expressions"""
    tkw = draw(st.sampled_from(["int", "int", "int64", "uint64"]))
    unit = draw(st.sampled_from([None, None, "m", "s"]))
    u = f" {unit}" if unit else ""
    base = draw(st.sampled_from([10 ** 6, 2 * 10 ** 6, 3 * 10 ** 7, 10 ** 9, 2 ** 31 - 1] +
                                ([2 ** 53, 2 ** 62] if tkw in ("int64", "uint64") else [])))
    others = [base * 2, base * 3][:draw(st.integers(0, 2))]
    opts = [base] + others
    what = draw(st.sampled_from(["listed", "off_by_one", "off_by_one", "off_by_few"]))
    val = {"listed": draw(st.sampled_from(opts)), "off_by_one": base + draw(st.sampled_from([1, -1])),
           "off_by_few": base + draw(st.integers(2, 9))}[what]
    ok = val in opts
    form = draw(st.sampled_from(["list", "lines"]))
    cons = ["  !options [" + ",".join(map(str, opts)) + "]" + u] if form == "list" else [f"  = {o}{u}" for o in opts]
    how = draw(st.sampled_from(["definition", "modification", "declaration"]))
    if how == "definition":
        lines = [f"x {tkw} = {val}{u}"] + cons
    elif how == "modification":
        lines = [f"x {tkw} = {base}{u}"] + cons + [f"x = {val}{u}"]
    else:
        lines = [f"x {tkw}{u}"] + cons + [f"x = {val}{u}"]
    return {"kind": "lines", "lines": lines, "expect_ok": ok, "what": "large_whole_numbers_as_options"}


@st.composite
def after_modification_case(draw):
    """a constraint written below a MODIFICATION belongs to the modified node (another node was defined in between and
    would give the opposite answer)"""
    ok = draw(st.booleans())
    fam = draw(st.sampled_from(["condition", "options", "format"]))
    if fam == "condition":
        lim = draw(st.integers(3, 50))
        good, bad = lim - draw(st.integers(1, 2)), lim + draw(st.integers(0, 5))
        x, y = (good, bad) if ok else (bad, good)
        lines = ["x int = 1", f"y int = {y}", f"x = {x}", f'  !condition ("{{?}} < {lim}")']
    elif fam == "options":
        opts = draw(st.lists(st.integers(0, 9), min_size=1, max_size=3, unique=True))
        inn, out = draw(st.sampled_from(opts)), max(opts) + draw(st.integers(1, 4))
        x, y = (inn, out) if ok else (out, inn)
        cons = ["  !options [" + ",".join(map(str, opts)) + "]"] if draw(st.booleans()) else [f"  = {o}" for o in opts]
        lines = [f"x int = {opts[0]}", f"y int = {y}", f"x = {x}"] + cons
    else:
        good, bad = draw(st.sampled_from(["abc", "hello"])), draw(st.sampled_from(["Abc", "a1", "x y"]))
        x, y = (good, bad) if ok else (bad, good)
        lines = ["x str = 'start'", f"y str = '{y}'", f"x = '{x}'", "  !format '^[a-z]+$'"]
    if draw(st.booleans()):
        lines.append("z bool = true")
    return {"kind": "lines", "lines": lines, "expect_ok": ok, "what": "constraint_below_a_modification"}


@st.composite
def same_condition_text_case(draw):
    """two nodes carry the character-identical condition and equal numbers in different units: each is judged on its own"""
    n = draw(st.sampled_from([5, 2, 20]))
    small, big = draw(st.sampled_from([("mm", "cm"), ("cm", "m"), ("ms", "s")]))
    lim = f"1 {big}" if n > 1 else f"10 {big}"
    second_ok = draw(st.booleans())
    first = [f"gap float = {n} {small}", f'  !condition ("{{?}} < {n + 1} {big}")']
    second = [f"wall float = {n} {small if second_ok else big}", f'  !condition ("{{?}} < {n + 1} {big}")']
    # the limit (n+1) big units: n small units are below it, n big units are below it as well -> use a limit between them
    lim_txt = f"{n * 2} {small}"
    first[1] = f'  !condition ("{{?}} < {lim_txt}")'
    second[1] = f'  !condition ("{{?}} < {lim_txt}")'
    lines = first + second
    if draw(st.booleans()) and not second_ok:
        # ... or the violating value arrives by a later modification in the other unit
        lines = first + [f"wall float = {n} {small}", second[1], f"wall = {n} {big}"]
    return {"kind": "lines", "lines": lines, "expect_ok": second_ok, "what": "same_condition_text_on_two_nodes"}


@st.composite
def empty_option_case(draw):
    """the empty string among the options of a string node: an option like any other"""
    val = draw(st.sampled_from(["junk", "''", "_v2", '""']))
    ok = val != "junk"
    cons = draw(st.sampled_from([["  = ''", "  = _v2"], ["  = _v2", '  = ""'], ['  !options ["","_v2"]']]))
    how = draw(st.sampled_from(["definition", "declaration", "modification"]))
    if how == "definition":
        lines = [f"s str = {val}"] + cons
    elif how == "declaration":
        lines = ["s str"] + cons + [f"s = {val}"]
    else:
        lines = ["s str = _v2"] + cons + [f"s = {val}"]
    return {"kind": "lines", "lines": lines, "expect_ok": ok, "what": "empty_string_among_the_options"}


@st.composite
def unitless_node_options_case(draw):
    """options with a unit on a node that has none: a dimensionless unit (%) is converted into a plain number, a unit
    with a dimension is not an option of such a node at all"""
    form = draw(st.sampled_from(["lines", "list"]))
    what = draw(st.sampled_from(["percent_match", "percent_match", "percent_number_only", "dimensional"]))
    opts = draw(st.lists(st.sampled_from([25, 50, 75, 10]), min_size=2, max_size=3, unique=True))
    if what == "percent_match":
        val, u, ok = fmt(opts[0] / 100), "%", True          # 0.5 is the option 50 %
    elif what == "percent_number_only":
        val, u, ok = fmt(float(opts[0])), "%", False        # 50 is not 50 %
    else:
        val, u, ok = fmt(float(opts[0])), draw(st.sampled_from(["m", "s"])), False       # 5 is not 5 m
    cons = ["  !options [" + ",".join(str(o) for o in opts) + f"] {u}"] if form == "list" else [f"  = {o} {u}" for o in opts]
    return {"kind": "lines", "lines": [f"x float = {val}"] + cons, "expect_ok": ok, "what": "options_with_units_on_a_unitless_node"}


def strategies(tier):
    return {"numeric": (numeric_case(), 2500, 60000), "string": (string_case(), 800, 20000), "bool": (bool_case(), 200, 4000),
            "array": (array_case(), 600, 12000), "declaration": (decl_case(), 150, 2000),
            "imported": (imported_case(), 300, 6000), "same_literal": (same_literal_case(), 300, 6000),
            "cross_node": (cross_node_case(), 400, 8000),
            "two_conditions": (two_conditions_case(), 300, 6000), "array_redef": (array_redef_case(), 300, 6000),
            "custom_unit_options": (custom_unit_options_case(), 250, 5000), "format_array": (format_array_case(), 150, 3000),
            "format_multiline": (format_multiline_case(), 150, 3000), "mixed_joiners": (mixed_joiners_case(), 300, 6000),
            "zero": (zero_case(), 300, 6000), "after_modification": (after_modification_case(), 300, 6000),
            "same_condition_text": (same_condition_text_case(), 150, 3000),
            "empty_option": (empty_option_case(), 100, 1500),
            "unitless_node_options": (unitless_node_options_case(), 120, 2000),
            "whole_number_options": (whole_number_options_case(), 150, 2500)}


# --------------------------------------------------------------------------- rendering

def _negt(t):
    return t[1:] if t.startswith("-") else "-" + t


MIRROR = {"<": ">", ">": "<", "<=": ">=", ">=": "<=", "==": "==", "!=": "!="}


def _mirrored(case):
    """the numeric case with every number negated and every inequality reversed"""
    c = json.loads(json.dumps(case))
    c["final"] = -c["final"]
    c["trail"] = [-x for x in c["trail"]]
    for con in c["cons"]:
        if con["k"] == "options":
            con["opts"] = [[_negt(t), u] for t, u in con["opts"]]
        elif con["k"] == "options_list":
            con["vals"] = [_negt(t) for t in con["vals"]]
        else:
            for cm in con["comps"]:
                cm["thr"] = _negt(cm["thr"])
                cm["op"] = MIRROR[cm["op"]]
    c["neg"] = False
    return c


def render(case):
    k = case["kind"]
    L = []
    if k == "numeric" and case.get("neg"):
        return render(_mirrored(case))
    if k == "numeric":
        u = f" {case['unit']}" if case["unit"] else ""
        vals = case["trail"] + [case["final"]]
        txt = [(str(v) if case["int"] else fmt(v)) for v in vals]
        nlim = 0
        for c in case["cons"]:
            for cm in (c["comps"] if c["k"] == "condition" else []):
                if cm.get("node"):
                    L.append(f"lim{nlim} {case['type']} = {cm['thr']}" + (f" {cm['unit']}" if cm["unit"] else ""))
                    nlim += 1
        nlim = 0
        if case["declared"]:
            L.append(f"x {case['type']}{u}")
            rest = txt
        else:
            L.append(f"x {case['type']} = {txt[0]}{u}")
            rest = txt[1:]
        for c in case["cons"]:
            if c["k"] == "options":
                for t, ou in c["opts"]:
                    L.append(f"  = {t}" + (f" {ou}" if ou else ""))
            elif c["k"] == "options_list":
                L.append("  !options [" + ",".join(c["vals"]) + "]" + (f" {c['unit']}" if c["unit"] else ""))
            else:
                parts = []
                for cm in c["comps"]:
                    rhs = cm["thr"] + (f" {cm['unit']}" if cm["unit"] else "")
                    if cm.get("node"):
                        rhs = f"{{?lim{nlim}}}"
                        nlim += 1
                    if cm["flip"]:
                        op = {"<": ">", ">": "<", "<=": ">=", ">=": "<=", "==": "==", "!=": "!="}[cm["op"]]
                        parts.append(f"{rhs} {op} {{?}}")
                    else:
                        parts.append(f"{{?}} {cm['op']} {rhs}")
                if c["paren"] and len(parts) > 1:
                    parts = [f"({p})" for p in parts]
                L.append('  !condition ("' + f" {c['join']} ".join(parts) + '")')
        L.append("other int = 1")
        for t in rest:
            L.append(f"x = {t}")
    elif k == "string":
        q = case["quote"]
        vals = case["trail"] + [case["final"]]
        L.append(f"x str = {q}{vals[0]}{q}")
        for c in case["cons"]:
            if c["k"] == "format":
                L.append(f"  !format '{c['regex']}'")
            elif c["k"] == "options":
                for t, _u in c["opts"]:
                    L.append(f"  = {t}")
            elif c["k"] == "options_list_str":
                L.append("  !options " + json.dumps(c["vals"], separators=(",", ":")))
            else:
                L.append(f"  !condition (\"{{?}} {c['op']} '{c['rhs']}'\")")
        for t in vals[1:]:
            L.append(f"x = {q}{t}{q}")
    elif k == "bool":
        first = (not case["final"]) if case["via_mod"] else case["final"]
        L.append(f"x bool = {'true' if first else 'false'}")
        L.append(f"  !condition (\"{{?}} {case['op']} {'true' if case['rhs'] else 'false'}\")")
        if case["via_mod"]:
            L.append(f"x = {'true' if case['final'] else 'false'}")
    elif k == "array":
        def lit(shape, start=0):
            if len(shape) == 1:
                return "[" + ",".join(str(start + i) for i in range(shape[0])) + "]"
            return "[" + ",".join(lit(shape[1:], start + 10 * i) for i in range(shape[0])) + "]"
        if case.get("via_fn"):
            L.append(f"x int[{case['dims']}] = (make)")
        elif case["via_mod"]:
            ok_dims = ",".join(":" for _ in case["shape"])
            L.append(f"x int[{case['dims']}]")
            L.append(f"x = {lit(case['shape'])}")
        else:
            L.append(f"x int[{case['dims']}] = {lit(case['shape'])}")
    elif k == "imported":
        L.append("g")
        L.append("  " + case["node"])
        for c in case["lines"]:
            L.append("    " + c)
        if case["how"] == "children":
            L.append("copy {?g.*}")
            L.append(f"copy.x = {case['assign']}")
        elif case["how"] == "single":
            L.append("copy {?g.x}")
            L.append(f"copy.x = {case['assign']}")
        else:
            L.append("copy {?*}")
            L.append(f"copy.g.x = {case['assign']}")
    elif k == "lines":
        L += case["lines"]
    elif k == "cross_node":
        L += case["lines"]
        if not case["stage2"]:
            L.append(case["change"])
    elif k == "same_literal":
        L.append(f"x float = {case['lit']} {case['unit']}")
        if case["form"] == "lines":
            L.append(f"  = {case['lit']} {case['unit']}")
            L.append(f"  = {case['lit']} {case['u2']}")
        else:
            L.append(f"  !options [{case['lit']},77] {case['unit']}")
            L.append(f"  !options [{case['lit']}] {case['u2']}")
        if case["expect_ok"]:
            L.append(f"x = {case['lit']} {case['which']}")
        else:
            L.append(f"x = 3{case['lit']} {case['which']}")
    else:
        L.append(f"x {case['type']}")
        if case["options"] and case["type"] in ("int", "float"):
            L += ["  = 1", "  = 2"]
        if case["assigned"]:
            L.append("x = " + {"int": "2", "float": "2", "str": "abc", "bool": "true"}[case["type"]])
    return "\n".join(L)


def check(case):
    v = Verdict()
    try:
        _check(case, v)
    finally:
        if not R.tables_pristine():
            R.restore_tables()
    return v


def _check(case, v):
    from scinumtools.dip import DIP, Format
    text = render(case)
    try:
        with DIP(name=f"c16_{next(_uid)}") as p:
            if case.get("via_fn"):
                import numpy as np
                arr = np.arange(int(np.prod(case["shape"]))).reshape(case["shape"])
                p.add_function("make", (lambda data: arr.copy()) if case["via_fn"] == "ndarray" else (lambda data: arr.tolist()))
            p.add_string(text)
            env = p.parse()
            if case.get("stage2"):
                with DIP(env, name=f"c16_{next(_uid)}") as p2:
                    p2.add_string(case["stage2"])
                    env = p2.parse()
        raised = None
    except Exception as e:
        raised = e
    if raised is None:
        try:
            data = env.data(Format.TUPLE)
        except Exception as e:
            # parse() returned: a refusal has to come from parse(), an environment that cannot be read is not one
            return v.fail("violation-accepted" if not case["expect_ok"] else "unreadable",
                          f"parse() returned an environment whose data() raises {e!r}:\n{text}")
    if case["expect_ok"]:
        if raised is not None:
            return v.fail("valid-rejected", f"all constraints are satisfied but parse raised {raised!r}:\n{text}")
        got = data.get("x", data.get("g.x"))
        if isinstance(got, tuple):
            got = got[0]
        got = D.to_py(got)
        k = case["kind"]
        if k in ("imported", "same_literal", "cross_node", "lines"):
            pass
        elif k == "numeric":
            want = -case["final"] if case.get("neg") else case["final"]
            if not close(got, want, 1e-9):
                return v.fail("value", f"x = {got!r}, expected {want!r}:\n{text}")
        elif k in ("string", "bool"):
            if got != case["final"]:
                return v.fail("value", f"x = {got!r}, expected {case['final']!r}:\n{text}")
    else:
        if raised is None:
            return v.fail("violation-accepted", f"a constraint is violated but parse returned x = {data.get('x')!r}:\n{text}")
    kinds = {c["k"].split("_")[0] for c in case.get("cons", [])}
    boundary = any(cm["place"] in ("on", "near") for c in case.get("cons", []) if c["k"] == "condition" for cm in c["comps"])
    other_unit = any((c["k"] == "options" and any(ou and ou != case.get("unit") for _t, ou in c["opts"])) or
                     (c["k"] == "options_list" and c["unit"] != case.get("unit")) or
                     (c["k"] == "condition" and any(cm["unit"] and cm["unit"] != case.get("unit") for cm in c["comps"]))
                     for c in case.get("cons", []))
    v.nt(len(kinds) >= 2 or boundary or other_unit or case["kind"] in ("array", "imported", "same_literal", "cross_node", "lines"))
    v.label(case.get("what", case["kind"]), "accepted" if case["expect_ok"] else "rejected", *("con_" + k for k in kinds))
    if boundary:
        v.label("boundary")
    if case.get("neg"):
        v.label("negative_values_and_bounds")
    comps = [cm for c in case.get("cons", []) if c["k"] == "condition" for cm in c["comps"]]
    if any(cm.get("node") for cm in comps):
        v.label("node_vs_node")
        if any(cm.get("node") and cm["unit"] != case.get("unit") for cm in comps[:-1]) and any(not cm.get("node") for cm in comps[1:]):
            v.label("node_vs_node_other_unit_then_literal")
    if case.get("int") and any("." in cm["thr"] for cm in comps):
        v.label("int_vs_fractional_literal")
    if other_unit:
        v.label("other_unit")
    if case.get("stage2"):
        v.label("second_parse_on_returned_environment")
    if case.get("via_fn"):
        v.label("value_from_function_" + case["via_fn"])
    v.info = {"text": text}
