"""C17 — references deliver the referenced node's current value and unit."""
import itertools
import os
import shutil
import tempfile

from hypothesis import strategies as st

from ..core import Verdict, close
from ..refs import dip_ref as D
from ..refs import units_ref as R

ID = "C17"
RULE = (
    'A source tree (float with unit, int, bool, str, float array, a nested node that may be !constant or carry '
    'options) held locally, in a second .dip file written to a per-case temporary directory, or in a base '
    'Environment from an earlier parse; then a generated sequence of operations in text order: modifications of '
    'source nodes, value injections {?p} / {src?p} into new typed hosts or as modifications of existing hosts, '
    'with the host unit stated or not, slices on arrays and strings, imports {?p.*}, {?p}, {?*} below groups, and '
    'at most one terminal probe (injection selecting none / several, import selecting nothing, modification '
    'refused by an imported constraint, an option added to an imported copy: accepted there, still refused by the '
    'original); a computed boolean source (src.cmp = comparison of src.cnt), a source that is itself an injection '
    'host (src.ref), one declared in the group and assigned after it (src.late), a 2x3 matrix with two-axis '
    'slices; imports onto an existing node of another unit; imports of hosts that were themselves created by '
    '(sliced) injections. Oracle: a model environment replayed in text order (injected value = current value of '
    "the source, slice applied; unit rule as stated; then conversion into the host's definition unit; imports "
    "copy value, type, unit and constraints). The base environment's data(TUPLE) and unit list must be identical "
    'before and after. Non-trivial: an injection after a modification of the source, or with a unit change, or a '
    'slice, or an import with constraints. Round 4: a source node with value and children, '
    'import-modify-reference, options and $unit given by reference, a sourced file rewritten between parses. '
    'Round 8: sliced references written as modifications; hosts defined through (multi-axis) slices assigned '
    'again. Round 10: the same reference twice around a modification of the referenced node with no definition in between; imports of nodes holding the empty text or none (scalar and array). Distinct = distinct case JSON.'
)
ASSUMPTIONS = [
    "remote sources are immutable inside one parse: source modifications are generated for local/base sources only",
    "before every remote case the same path is sourced once with other content (a file may change between two parses)",
    "length units only (m, cm, km, mm) so that every unit change is a same-dimension conversion",
    "numeric comparison with relative tolerance 1e-9",
]
NT_FLOOR = 0.2
# coverage-guided complement (sv/fuzz.py): strategy -> number of cases
FUZZ = {"thorough": {"references": 10000}}
_uid = itertools.count()
LEN = ["m", "cm", "km", "mm"]
WORDS = ["Will Smith", "alpha", "x y z", "Tina", "abcdef"]


def F(u):
    return R.factor_of_expression_text(u)


@st.composite
def source_tree(draw):
    return {
        "len": [draw(st.sampled_from([1.5, 34.0, 250.0, 0.5, 0.0])), draw(st.sampled_from(LEN))],
        "cnt": draw(st.integers(-5, 50)),
        "flag": draw(st.booleans()),
        "cmp_op": draw(st.sampled_from(["<=", ">=", "<", "=="])),     # src.cmp bool = ("{?src.cnt} <op> 20"): a computed boolean
        "name": draw(st.sampled_from(WORDS)),
        "arr": [[draw(st.sampled_from([34.0, 23.34, 1.0, 0.25, 100.0])) for _ in range(3)], draw(st.sampled_from(LEN))],
        "late": [draw(st.sampled_from([40.0, 2.5, 0.0])), draw(st.sampled_from(LEN))],   # declared in src, assigned after the group
        "deep": draw(st.integers(1, 3)),
        "deep_con": draw(st.sampled_from([None, None, "constant", "options"])),
    }


KEYS = ["src.len", "src.cnt", "src.flag", "src.cmp", "src.name", "src.arr", "src.sub.deep", "src.ref", "src.late", "src.mat", "src.words", "src.par"]
TYPE = {"src.len": "float", "src.cnt": "int", "src.flag": "bool", "src.cmp": "bool", "src.name": "str", "src.arr": "float[3]",
        "src.sub.deep": "int", "src.ref": "float", "src.late": "float", "src.mat": "float[2,3]", "src.words": "str[3]", "src.par": "int"}
WORDLIST = ["alpha", "b c", "gamma"]
MAT = [[1.0, 2.0, 3.0], [4.0, 5.0, 6.0]]


def cmp_value(t):
    op = t.get("cmp_op", "<=")
    return {"<=": t["cnt"] <= 20, ">=": t["cnt"] >= 20, "<": t["cnt"] < 20, "==": t["cnt"] == 20}[op]


@st.composite
def operation(draw, where):
    kinds = ["inject_def"] * 5 + ["inject_mod"] * 2 + ["slice_remod"] * 2 + ["import_children", "import_children", "import_single", "import_all",
                                                       "import_host", "import_host", "import_over", "import_mod_ref"]
    if where != "remote":
        kinds += ["mod_src"] * 6 + ["ref_mod_ref"] * 2
    k = draw(st.sampled_from(kinds))
    if k == "mod_src":
        key = draw(st.sampled_from(["src.len", "src.cnt", "src.flag", "src.name", "src.arr"]))
        val = {"src.len": draw(st.sampled_from([2.0, 7.5, 120.0, 0.0])), "src.cnt": draw(st.integers(-9, 99)),
               "src.flag": draw(st.booleans()), "src.name": draw(st.sampled_from(WORDS)),
               "src.arr": [draw(st.sampled_from([5.0, 6.5, 0.0, 10.0])) for _ in range(3)]}[key]
        unit = draw(st.sampled_from([None] + LEN)) if key in ("src.len", "src.arr") else None
        return ["mod_src", key, val, unit]
    if k == "ref_mod_ref":
        # host = {?x} / x = new value / host = {?x}: the same reference twice, the referenced node changed in between and
        # no node defined in between - the second reference delivers the value the node has THEN
        key = draw(st.sampled_from(["src.len", "src.cnt", "src.name"]))
        val = {"src.len": draw(st.sampled_from([3.0, 8.5, 150.0, 0.0])), "src.cnt": draw(st.integers(-9, 99)),
               "src.name": draw(st.sampled_from(WORDS))}[key]
        return ["ref_mod_ref", key, val]
    if k == "inject_def":
        key = draw(st.sampled_from(KEYS))
        unit = draw(st.sampled_from([None, None] + LEN)) if key in ("src.len", "src.arr") else None
        sl = None
        if key == "src.arr":
            sl = draw(st.sampled_from([None, "1", "0", "1:", ":2", "0:2"]))
        elif key == "src.words":
            sl = draw(st.sampled_from([None, "1", "0", "1:", "0:2"]))      # an element of a string array is a string
        elif key == "src.mat":
            sl = draw(st.sampled_from([None, ":,1", "1,0:2", "0,2", "1", "0:1,1:"]))
        elif key == "src.name":
            sl = draw(st.sampled_from([None, None, "2:", ":3", "1:4", "0", "2:2", "0:0"]))      # n:n is the empty range, not the index n
        return ["inject_def", key, unit, sl]
    if k == "slice_remod":
        # a host defined through a sliced reference, then assigned again: by a literal of its shape, or by another
        # sliced reference written as a modification
        key = draw(st.sampled_from(["src.arr", "src.mat", "src.name"]))
        sl1, sl2 = draw(st.sampled_from({"src.arr": [("1", "0"), ("1:", "0:2"), (":2", "1:"), ("0", "2")],
                                         "src.mat": [(":,1", ":,0"), ("0,2", "1,0"), ("1,0:2", "0,1:"), ("1", "0"), (":,2", ":,1")],
                                         "src.name": [("2:", "1:3"), ("1:4", "0:3"), (":3", "2:")]}[key]))
        return ["slice_remod", key, sl1, draw(st.sampled_from(["literal", "sliced", "sliced"])), sl2]
    if k == "inject_mod":
        return ["inject_mod", draw(st.sampled_from(["src.len", "src.cnt", "src.flag", "src.cmp", "src.name"])),
                draw(st.sampled_from([None] + LEN))]
    if k == "import_children":
        return ["import_children", draw(st.sampled_from(["src", "src.sub", "src.par"]))]
    if k == "import_single":
        return ["import_single", draw(st.sampled_from(KEYS))]
    if k == "import_host":
        return ["import_host", draw(st.integers(0, 6))]     # the i-th host defined so far (modulo), created by an injection
    if k == "import_mod_ref":
        # import a node, modify the imported copy, then reference the copy: the reference sees the modified value
        return ["import_mod_ref", draw(st.sampled_from(["src.cnt", "src.len", "src.par"])), draw(st.integers(-9, 99))]
    if k == "import_over":
        # the importing group already holds a node of that name (another unit): the import acts as a modification
        return ["import_over", draw(st.sampled_from(["src.len", "src.late", "src.cnt", "src.ref"])), draw(st.sampled_from(LEN))]
    return ["import_all"]


@st.composite
def ref_case(draw):
    where = draw(st.sampled_from(["local", "local", "remote", "base"]))
    ops = draw(st.lists(operation(where), min_size=1, max_size=7))
    probe = draw(st.sampled_from([None] * 5 + ["inject_none", "inject_several", "import_none", "import_none_single",
                                               "imported_constraint", "option_added_to_copy", "option_leak",
                                               "option_by_ref", "option_by_ref_reject", "unit_by_ref"]))
    return {"where": where, "tree": draw(source_tree()), "ops": ops, "probe": probe}


@st.composite
def import_edge_case(draw):
    """imports of nodes that hold one of the documented 'empty' values: the empty text given after a declaration, none
    in a scalar or in an array node - each re-created with unchanged value, type and unit"""
    return {"kind": "import_edge",
            "which": draw(st.sampled_from(["declared_then_empty_text", "none_array", "none_scalar", "empty_text_definition"])),
            "form": draw(st.sampled_from(["children", "single", "all"])),
            "unit": draw(st.sampled_from([None, "cm", "m"])), "sibling": draw(st.integers(0, 9))}


def strategies(tier):
    return {"references": (ref_case(), 2000, 40000), "import_edge": (import_edge_case(), 120, 1500)}


# --------------------------------------------------------------------------- rendering

def lit(v):
    if isinstance(v, bool):
        return "true" if v else "false"
    if isinstance(v, list):
        return "[" + ",".join(repr(float(x)) for x in v) + "]"
    if isinstance(v, str):
        return "'" + v + "'"
    return repr(v)


def source_text(t):
    L = ["src",
         f"  len float = {lit(t['len'][0])} {t['len'][1]}",
         f"  cnt int = {t['cnt']}",
         f"  flag bool = {lit(t['flag'])}",
         f"  cmp bool = (\"{{?src.cnt}} {t.get('cmp_op', '<=')} 20\")",
         f"  name str = {lit(t['name'])}",
         f"  arr float[3] = {lit(t['arr'][0])} {t['arr'][1]}",
         "  ref float = {?src.len}",
         f"  late float {t.get('late', [40.0, 'cm'])[1]}",
         "  mat float[2,3] = [[1.0,2.0,3.0],[4.0,5.0,6.0]]",
         "  words str[3] = '[\"alpha\",\"b c\",\"gamma\"]'",
         "  sub",
         f"    deep int = {t['deep']}"]
    if t["deep_con"] == "constant":
        L.append("      !constant")
    elif t["deep_con"] == "options":
        L += ["      = 1", "      = 2", "      = 3"]
    # neighbours whose names merely start with a queried path: a wildcard must not pick them up
    # a node that has a value AND a child: a plain path selects the node alone
    L += ["  par int = 4", "    kid int = 5"]
    L += ["  subx", "    other int = 5", "srcx", "  top int = 6"]
    late = t.get("late", [40.0, "cm"])
    L += [f"src.late = {lit(late[0])} {late[1]}"]
    return "\n".join(L)


def _slice_py(val, sl):
    if sl is None:
        return val
    if "," in sl:
        first, second = sl.split(",", 1)
        rows = _slice_py(val, first)
        if ":" in first:
            return [_slice_py(r, second) for r in rows]
        return _slice_py(rows, second)
    if ":" in sl:
        a, b = sl.split(":")
        return val[(int(a) if a else None):(int(b) if b else None)]
    return val[int(sl)]


def _copy(v):
    return [_copy(x) for x in v] if isinstance(v, list) else v


class Model:
    def __init__(self, tree):
        self.nodes = {}   # path -> dict(type, unit, value, con)
        self.order = []
        t = tree
        self.add("src.len", "float", t["len"][1], t["len"][0])
        self.add("src.cnt", "int", None, t["cnt"])
        self.add("src.flag", "bool", None, t["flag"])
        self.add("src.cmp", "bool", None, cmp_value(t))
        self.add("src.name", "str", None, t["name"])
        self.add("src.arr", "float[3]", t["arr"][1], list(t["arr"][0]))
        self.add("src.ref", "float", t["len"][1], t["len"][0])
        late = t.get("late", [40.0, "cm"])
        self.add("src.late", "float", late[1], late[0])
        self.add("src.mat", "float[2,3]", None, [list(r) for r in MAT])
        self.add("src.words", "str[3]", None, list(WORDLIST))
        self.add("src.sub.deep", "int", None, t["deep"], t["deep_con"])
        self.add("src.par", "int", None, 4)
        self.add("src.par.kid", "int", None, 5)
        self.add("src.subx.other", "int", None, 5)
        self.add("srcx.top", "int", None, 6)

    def add(self, path, typ, unit, value, con=None):
        if path not in self.nodes:
            self.order.append(path)
        self.nodes[path] = {"type": typ, "unit": unit, "value": value, "con": con}

    def copy_nodes(self):
        return {k: dict(v) for k, v in self.nodes.items()}


def build(case):
    """-> (texts for the stages, model of the final environment, expects_raise, info)"""
    tree = case["tree"]
    where = case["where"]
    model = Model(tree)
    src_model = Model(tree)          # what references resolve against (remote: frozen file content)
    L = []
    info = {"after_mod": False, "unit_change": False, "slice": False, "import_con": False, "import_of_sliced_host": False,
            "import_over_existing": False, "reference_to_modified_import": False}
    pre = "s" if where == "remote" else ""
    modified = set()
    hosts = {}                        # kind -> host path (for inject_mod)
    all_hosts = []                    # every host created by an injection (for import_host)
    n = itertools.count()
    if where == "remote":
        final = Model.__new__(Model)
        final.nodes, final.order = {}, []
    else:
        final = model
    resolve = src_model if where == "remote" else model

    def conv(val, ufrom, uto):
        if ufrom is None or uto is None or ufrom == uto:
            return val
        f = F(ufrom) / F(uto)
        return [x * f for x in val] if isinstance(val, list) else val * f

    for op in case["ops"]:
        k = op[0]
        if k == "mod_src":
            _k, key, val, unit = op
            node = final.nodes[key]
            L.append(f"{key} = {lit(val)}" + (f" {unit}" if unit else ""))
            node["value"] = conv(val, unit or node["unit"], node["unit"])
            modified.add(key)
        elif k == "inject_def":
            _k, key, unit, sl = op
            s = resolve.nodes[key]
            val = _slice_py(s["value"], sl)
            if isinstance(val, list) and not val:
                continue
            typ = s["type"].split("[")[0]
            if isinstance(val, list):
                if val and isinstance(val[0], list):
                    if not val[0]:
                        continue
                    typ += f"[{len(val)},{len(val[0])}]"
                else:
                    typ += f"[{len(val)}]"
            hp = f"h{next(n)}"
            ref = "{" + pre + "?" + key + "}" + (f"[{sl}]" if sl else "")
            L.append(f"{hp} {typ} = {ref}" + (f" {unit}" if unit else ""))
            hunit = unit or s["unit"]
            final.add(hp, typ, hunit, _copy(val))
            all_hosts.append((hp, bool(sl)))
            kind = TYPE[key] if sl is None else None
            if kind and "[" not in kind:
                hosts[key] = hp
            if key in modified:
                info["after_mod"] = True
            if unit and s["unit"] and unit != s["unit"]:
                info["unit_change"] = True
            if sl:
                info["slice"] = True
        elif k == "slice_remod":
            _k, key, sl1, how, sl2 = op
            s = resolve.nodes[key]
            val = _slice_py(s["value"], sl1)
            typ = s["type"].split("[")[0]
            if isinstance(val, list):
                typ += f"[{len(val)}]"
            hp = f"h{next(n)}"
            L.append(f"{hp} {typ} = " + "{" + pre + "?" + key + "}" + f"[{sl1}]")
            if how == "literal":
                new = "zz" if isinstance(val, str) else [9.5 + i for i in range(len(val))] if isinstance(val, list) else 9.5
                L.append(f"{hp} = {lit(new)}" + (f" {s['unit']}" if s["unit"] else ""))
                info["sliced_host_assigned_a_literal"] = True
            else:
                new = _slice_py(s["value"], sl2)
                L.append(f"{hp} = " + "{" + pre + "?" + key + "}" + f"[{sl2}]")
                info["sliced_reference_as_modification"] = True
            final.add(hp, typ, s["unit"], _copy(new))
            all_hosts.append((hp, True))
            info["slice"] = True
        elif k == "inject_mod":
            _k, key, unit = op
            if key not in hosts:
                continue
            if key != "src.len":
                unit = None
            hp = hosts[key]
            s = resolve.nodes[key]
            h = final.nodes[hp]
            L.append(f"{hp} = " + "{" + pre + "?" + key + "}" + (f" {unit}" if unit else ""))
            h["value"] = conv(s["value"], unit or s["unit"], h["unit"])
            if key in modified:
                info["after_mod"] = True
            if unit and unit != h["unit"]:
                info["unit_change"] = True
        elif k == "ref_mod_ref":
            _k, key, newv = op
            sn = final.nodes[key]
            if key not in hosts:
                hp = f"h{next(n)}"
                L.append(f"{hp} {sn['type']} = " + "{?" + key + "}")
                final.add(hp, sn["type"], sn["unit"], _copy(sn["value"]))
                hosts[key] = hp
                all_hosts.append((hp, False))
            hp = hosts[key]
            h = final.nodes[hp]
            L.append(f"{hp} = " + "{?" + key + "}")
            L.append(f"{key} = {lit(newv)}" + (f" {sn['unit']}" if sn["unit"] else ""))
            L.append(f"{hp} = " + "{?" + key + "}")
            sn["value"] = newv
            modified.add(key)
            h["value"] = conv(newv, sn["unit"], h["unit"])
            info["after_mod"] = True
            info["same_reference_twice_around_a_modification"] = True
        elif k == "import_mod_ref":
            _k, key, newv = op
            sn = resolve.nodes[key]
            g = f"imr{next(n)}"
            leaf = key.split(".")[-1]
            newv = float(newv) if sn["type"] == "float" else newv
            L.append(f"{g} " + "{" + pre + "?" + key + "}")
            L.append(f"{g}.{leaf} = {lit(newv)}" + (f" {sn['unit']}" if sn["unit"] else ""))
            hp = f"h{next(n)}"
            L.append(f"{hp} {sn['type']} = {{?{g}.{leaf}}}")
            final.add(f"{g}.{leaf}", sn["type"], sn["unit"], newv)
            final.add(hp, sn["type"], sn["unit"], newv)
            info["after_mod"] = True
            info["reference_to_modified_import"] = True
        elif k == "import_over":
            _k, key, hunit = op
            sn = resolve.nodes[key]
            g = f"ov{next(n)}"
            leaf = key.split(".")[-1]
            hunit = hunit if sn["unit"] else None
            L.append(g)
            L.append(f"  {leaf} {sn['type']} = 7" + (f" {hunit}" if hunit else ""))
            L.append(f"{g} " + "{" + pre + "?" + key + "}")
            final.add(f"{g}.{leaf}", sn["type"], hunit, conv(sn["value"], sn["unit"], hunit))
            info["import_over_existing"] = True
            if key in modified:
                info["after_mod"] = True
        elif k == "import_host":
            if not all_hosts:
                continue
            hp, sliced = all_hosts[op[1] % len(all_hosts)]
            g = f"bag{next(n)}"
            L.append(f"{g} {{?{hp}}}")
            hn = final.nodes[hp]
            final.add(f"{g}.{hp}", hn["type"], hn["unit"], _copy(hn["value"]))
            if sliced:
                info["import_of_sliced_host"] = True
        elif k in ("import_children", "import_single", "import_all"):
            g = f"bag{next(n)}"
            if k == "import_children":
                prefix = op[1] + "."
                sel = [(p, p[len(prefix):]) for p in resolve.order if p.startswith(prefix)]
                L.append(f"{g} " + "{" + pre + "?" + op[1] + ".*}")
            elif k == "import_single":
                sel = [(op[1], op[1].split(".")[-1])]
                L.append(f"{g} " + "{" + pre + "?" + op[1] + "}")
            else:
                sel = [(p, p) for p in list(resolve.order)]
                L.append(f"{g}")
                L.append("  {" + pre + "?*}")
                if where != "remote" and any(sl for _h, sl in all_hosts):
                    info["import_of_sliced_host"] = True
            for p, rel in sel:
                sn = resolve.nodes[p]
                final.add(f"{g}.{rel}", sn["type"], sn["unit"], _copy(sn["value"]), sn["con"])
                if sn["con"]:
                    info["import_con"] = True
    expects_raise = False
    probe = case["probe"]
    if probe == "inject_none":
        L.append("bad float = {" + pre + "?src.missing}")
        expects_raise = True
    elif probe == "inject_several":
        L.append("bad float = {" + pre + "?src.*}")
        expects_raise = True
    elif probe == "import_none":
        L.append("empty {" + pre + "?src.nothing.*}")
        L.append("tail int = 7")
        final.add("tail", "int", None, 7)
    elif probe == "import_none_single":
        L.append("empty {" + pre + "?nothing}")
        L.append("tail int = 7")
        final.add("tail", "int", None, 7)
    elif probe == "imported_constraint":
        if tree["deep_con"]:
            L.append("probe {" + pre + "?src.sub.deep}")
            L.append("probe.deep = 9")
            expects_raise = True
            info["import_con"] = True
        else:
            probe = None
    elif probe in ("option_by_ref", "option_by_ref_reject"):
        # an option given by reference adopts the referenced node's unit
        L += ["olim float = 2 m", f"osize float = {'200' if probe == 'option_by_ref' else '2'} cm", "  = {?olim}", "  = 1 cm"]
        if probe == "option_by_ref":
            final.add("olim", "float", "m", 2.0)
            final.add("osize", "float", "cm", 200.0)
        else:
            expects_raise = True
    elif probe == "unit_by_ref":
        # the documented '$unit name = {?node}': the unit is the node's value with its unit
        L += ["stick float = 50 cm", "$unit stick = {?stick}", "ux float = 2 [stick]", "ux = 3 m"]
        final.add("stick", "float", "cm", 50.0)
        final.add("ux", "float", "[stick]", 6.0)
    elif probe in ("option_added_to_copy", "option_leak"):
        if tree["deep_con"] == "options":
            # a further option on the imported copy widens the copy only
            L.append("probe {" + pre + "?src.sub.deep}")
            L.append("  = 4")
            info["import_con"] = True
            if probe == "option_added_to_copy":
                L.append("probe.deep = 4")
                final.add("probe.deep", "int", None, 4, "options")
            else:
                if where == "remote":
                    L.append("probe2 {" + pre + "?src.sub.deep}")
                    L.append("probe2.deep = 4")
                else:
                    L.append("src.sub.deep = 4")
                expects_raise = True
    return L, final, expects_raise, info


def check(case):
    v = Verdict()
    tmp = None
    if case.get("kind") == "import_edge":
        _check_edge(case, v)
        return v
    try:
        if case["where"] == "remote":
            tmp = tempfile.mkdtemp(prefix="svc17_")
        _check(case, v, tmp)
    finally:
        if tmp:
            shutil.rmtree(tmp, ignore_errors=True)
        if not R.tables_pristine():
            R.restore_tables()
    return v


def _check_edge(case, v):
    from scinumtools.dip import DIP, Format
    w, form, unit = case["which"], case["form"], case["unit"]
    u = f" {unit}" if unit else ""
    if w == "declared_then_empty_text":
        L, exp = ["g", "  e str", f"  other int = {case['sibling']}", 'g.e = ""'], ""
    elif w == "empty_text_definition":
        L, exp = ["g", '  e str = ""', f"  other int = {case['sibling']}"], ""
    elif w == "none_array":
        L, exp = ["g", f"  e float[3] = none{u}", f"  other int = {case['sibling']}"], (None, unit) if unit else None
    else:
        L, exp = ["g", f"  e float = none{u}", f"  other int = {case['sibling']}"], (None, unit) if unit else None
    L.append({"children": "bag {?g.*}", "single": "bag {?g.e}", "all": "bag {?*}"}[form])
    text = "\n".join(L)
    pre = "bag.g." if form == "all" else "bag."
    want = {"g.e": exp, "g.other": case["sibling"], pre + "e": exp}
    if form != "single":
        want[pre + "other"] = case["sibling"]
    v.nt(True)
    v.label("import_of_an_empty_value", w, "import_" + form)
    v.info = {"text": text}
    try:
        with DIP(name=f"c17_{next(_uid)}") as p:
            p.add_string(text)
            env = p.parse()
            got = env.data(Format.TUPLE)
    except Exception as e:
        return v.fail("import-raised", f"raised {e!r} for:\n{text}\n(expected {want!r})")
    got = {k: (tuple(x) if isinstance(x, list) and w != "declared_then_empty_text" and len(x) == 2 and x[0] is None else x)
           for k, x in got.items()}
    if got != want:
        return v.fail("import-value", f"got {got!r}, expected {want!r} for:\n{text}")


def _same_list(got, exp):
    if isinstance(exp, list):
        return isinstance(got, list) and len(got) == len(exp) and all(_same_list(a, b) for a, b in zip(got, exp))
    if isinstance(exp, str):
        return isinstance(got, str) and got == exp
    return not isinstance(got, (list, bool, str)) and got is not None and close(got, exp, 1e-9, 1e-300)


def _snapshot(env):
    from scinumtools.dip import Format
    data = env.data(Format.TUPLE)
    return {k: D.to_py(x[0] if isinstance(x, tuple) else x) for k, x in data.items()}, \
           {k: (x[1] if isinstance(x, tuple) else None) for k, x in data.items()}, sorted(env.units.keys())


def _check(case, v, tmp):
    from scinumtools.dip import DIP, Format
    lines, final, expects_raise, info = build(case)
    body = "\n".join(lines)
    src = source_text(case["tree"])
    where = case["where"]
    text = None
    base_before = None
    env0 = None
    try:
        if where == "local":
            text = src + "\n" + body
            with DIP(name=f"c17_{next(_uid)}") as p:
                p.add_string(text)
                env = p.parse()
        elif where == "base":
            with DIP(name=f"c17_{next(_uid)}") as p0:
                p0.add_string("$unit blen = 3 cm\n" + src)
                env0 = p0.parse()
            base_before = _snapshot(env0)
            # the later stage also defines a unit of its own: the base environment must not see it
            body2 = ("$unit later = 5 mm\n" + body) if case["tree"]["cnt"] % 2 == 0 else body
            text = src + "\n# ---- parsed on top of the returned environment ----\n" + body2
            with DIP(env0, name=f"c17_{next(_uid)}") as p:
                p.add_string(body2)
                env = p.parse()
        else:
            path = os.path.join(tmp, "remote.dip")
            # the same path held other content when an earlier parse of this process sourced it under the same name
            other = dict(case["tree"], len=[case["tree"]["len"][0] + 1.0, "km"], cnt=case["tree"]["cnt"] + 7,
                         name="stale", flag=not case["tree"]["flag"])
            with open(path, "w") as f:
                f.write(source_text(other) + "\n")
            with DIP(name=f"c17_{next(_uid)}") as pp:
                pp.add_string(f"$source s = {path}\nold float = {{s?src.len}}\nbag {{s?src.*}}")
                pp.parse().data()
            with open(path, "w") as f:
                f.write(src + "\n")
            text = f"# remote.dip:\n{src}\n# ---- main ----\n$source s = {path}\n{body}"
            with DIP(name=f"c17_{next(_uid)}") as p:
                p.add_string(f"$source s = {path}\n{body}")
                env = p.parse()
        raised = None
    except Exception as e:
        raised = e
    if expects_raise:
        if raised is None:
            return v.fail("invalid-accepted", f"the last statement ({case['probe']}) must be rejected but parsing returned:\n{text}")
    else:
        if raised is not None:
            return v.fail("parse-raised", f"raised {raised!r} for:\n{text}")
        try:
            tup = env.data(Format.TUPLE)
        except Exception as e:
            return v.fail("unreadable-entry", f"env.data() raised {e!r} for:\n{text}")
        want = list(final.order)
        if list(tup.keys()) != want:
            return v.fail("paths", f"paths {list(tup.keys())} != expected {want} for:\n{text}")
        for pth in want:
            m = final.nodes[pth]
            got = tup[pth]
            gu = None
            if isinstance(got, tuple):
                got, gu = got
            got = D.to_py(got)
            if (m["unit"] or None) != (gu or None):
                return v.fail("unit", f"{pth}: unit {gu!r}, expected {m['unit']!r} for:\n{text}")
            exp = m["value"]
            if isinstance(exp, list):
                ok = _same_list(got, exp)
            elif isinstance(exp, bool) or isinstance(exp, str) or exp is None:
                ok = D.values_equal(got, exp)
            else:
                ok = not isinstance(got, (bool, str, list)) and got is not None and close(got, exp, 1e-9, 1e-300)
            if not ok:
                return v.fail("value", f"{pth} = {got!r} {gu or ''}, model says {exp!r} {m['unit'] or ''} for:\n{text}")
    if where == "base" and env0 is not None:
        after = _snapshot(env0)
        if after != base_before:
            return v.fail("base-changed", f"the base environment changed: {base_before} -> {after} for:\n{text}")
        if case["probe"] == "option_added_to_copy" and case["tree"]["deep_con"] == "options":
            try:
                with DIP(env0, name=f"c17_{next(_uid)}") as p2:
                    p2.add_string("src.sub.deep = 4")
                    p2.parse()
                return v.fail("base-changed", f"the base environment's node src.sub.deep accepts 4 after an option was "
                                              f"added to an imported copy:\n{text}")
            except Exception:
                pass
    v.nt(info["after_mod"] or info["unit_change"] or info["slice"] or info["import_con"])
    v.label(where, *[k for k, x in info.items() if x])
    if case["probe"]:
        v.label("probe_" + case["probe"])
    v.info = {"text": text}
