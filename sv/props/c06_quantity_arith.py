"""C06 — quantity arithmetic agrees with arithmetic on base-dimension values."""
import math
from fractions import Fraction as F

import numpy as np
from hypothesis import strategies as st

from ..core import Verdict, close
from ..refs import units_ref as R
from ..refs import unit_gens as G

ID = "C06"
RULE = (
    'Operand pairs (same unit / same dimension other prefix or unit / compound expression / different dimension / '
    'plain number on either side; scalars and arrays) under + - * / neg and ** (int -3..3, (n,d) pairs, Fraction '
    'objects, exactly representable floats, and 1/3-type floats). Oracle: B(q)=q.value()*F(q.units()) and the '
    'unit atoms of q.units(), both read with the independent table lexer: B(a op b) = B(a) op B(b); sum carries '
    'the left units; product/quotient add/subtract unit exponents; power multiplies them exactly (identically for '
    'every spelling of the exponent); a result of zero total dimension keeps no dimensional unit; +/- across '
    'dimensions raise. Non-trivial: operands in different units or a compound unit, or cancellation, or a '
    'non-integer exponent, or a reflected operator. Later rounds: signed denominators in (n,d) exponents; integer '
    'numpy arrays with dict units; reciprocal dimensions in a sum. Rounds 7-8: the same unit ids with other '
    'exponents on both sides of a sum; numpy scalars and arrays on the left; exponents given as numpy.float32 / '
    'float16 and fractions.Fraction. Round 9: exponents given as 0-d numpy arrays. Distinct = distinct case JSON.'
)
ASSUMPTIONS = [
    "linear table units only (temperature/logarithmic arithmetic is C05)",
    "cases whose base values leave [1e-300,1e300] are discarded (float range)",
    "relative tolerance 1e-11; for sums relative to the larger operand",
    "fractional powers are applied to positive magnitudes only",
]
NT_FLOOR = 0.4
TOL = 1e-11

POWERS = ([["int", n] for n in range(-3, 4)] +
          [["pair", n, d] for n in (-3, -1, 1, 2, 3, 5) for d in (1, 2, 3, 4)] +
          [["frac", n, d] for n in (-1, 1, 3) for d in (2, 3, 4)] +
          [["float", n, d] for n, d in ((1, 2), (1, 4), (3, 2), (-5, 2), (3, 4), (-1, 2), (2, 1), (-1, 1))] +
          [["float3", n, d] for n, d in ((1, 3), (2, 3), (-1, 3), (4, 3))] +
          # the denominator of a pair / Fraction exponent may carry the sign
          # other numeric types of the same exponents
          [["pyfrac", 1, 2], ["pyfrac", 3, 2], ["pyfrac", -1, 3], ["pyfrac", 2, 1], ["np32", 1, 2], ["np32", 3, 2], ["np32", -1, 4],
           ["np32", 2, 1], ["np16", 3, 2], ["np16", 1, 2], ["np0d", 1, 2], ["np0d", 3, 2], ["np0d", 2, 1], ["np0d", -1, 4]] +
          [["pair", 1, -2], ["pair", -1, -2], ["pair", 3, -4], ["pair", -3, -2], ["frac", -1, -2], ["frac", 1, -3]])


@st.composite
def binop_case(draw):
    op = draw(st.sampled_from(["+", "-", "*", "/"]))
    rel = draw(st.sampled_from(["same_unit", "same_dim", "same_dim", "other_dim", "recip_dim", "shared_atoms", "shared_atoms",
                                "same_ids", "number_right", "number_left"]))
    d1 = draw(st.sampled_from(G.DIMS))
    if rel.startswith("number") and op in "+-" and draw(st.integers(0, 3)) > 0:
        d1 = R.ZERO          # a plain number can only be added to a dimensionless quantity (%, ppth, ratios ...)
    u = draw(G.expr_of_dim(d1))
    if rel == "shared_atoms":
        u, sv = draw(G.shared_atoms_pair())
    if rel == "same_ids":
        # the SAME two unit ids on both sides with different exponents but equal total dimension (km2/m and m2/km):
        # a sum still has to convert the right operand
        a_, b_ = draw(st.sampled_from([(("k", "m"), ("", "m")), (("", "h"), ("", "s")), (("c", "m"), ("m", "m")),
                                       (("", "ft"), ("", "m")), (("k", "g"), ("", "g")), (("", "min"), ("m", "s"))]))
        (e1, e2), (f1, f2) = draw(st.sampled_from([((2, -1), (-1, 2)), ((3, -1), (1, 1)), ((1, 2), (2, 1)),
                                                   ((-1, -1), (-3, 1)), ((1, -2), (-2, 1))]))
        u = ["*", G.atom(a_[0], a_[1], e1, 1), G.atom(b_[0], b_[1], e2, 1)]
        sv = ["*", G.atom(a_[0], a_[1], f1, 1), G.atom(b_[0], b_[1], f2, 1)]
    if rel == "recip_dim" and d1 == R.ZERO:
        rel = "other_dim"
    x = draw(G.magnitudes(lo_exp=-30, hi_exp=30))
    y = draw(G.magnitudes(lo_exp=-30, hi_exp=30))
    if isinstance(x, list) and isinstance(y, list) and len(x) != len(y):
        y = y[0]
    if rel.startswith("number") and isinstance(y, list):
        y = y[0]          # "a plain number": a scalar, unless the numpy forms below are drawn
    left_np = None
    if rel == "number_left":
        # the number on the left may be a numpy scalar or a numpy array (documented: np.array([1,2,3]) * Constant('c'))
        left_np = draw(st.sampled_from([None, None, "float64", "float32", "array"]))
        if left_np == "array":
            y = [y, draw(st.sampled_from([2.0, -0.5, 3.0]))]
            x = x[0] if isinstance(x, list) else x
        elif left_np == "float32":
            y = float(np.float32(y))
    if rel == "same_unit":
        v = u
    elif rel == "same_dim":
        v = draw(G.expr_of_dim(d1))
    elif rel == "other_dim":
        v = draw(G.expr_of_dim(draw(st.sampled_from(G.DIMS))))
    elif rel == "recip_dim":
        v = draw(G.expr_of_dim(G.neg(d1)))
    elif rel in ("shared_atoms", "same_ids"):
        v = sv
    else:
        v = None
    return {"kind": "bin", "op": op, "rel": rel, "u": u, "v": v, "x": x, "y": y, "left_np": left_np}


@st.composite
def pow_case(draw):
    d1 = draw(st.sampled_from(G.DIMS))
    u = draw(G.expr_of_dim(d1))
    p = draw(st.sampled_from(POWERS))
    x = draw(G.magnitudes(lo_exp=-30, hi_exp=30))
    intarr = None
    if draw(st.integers(0, 5)) == 0:
        # an integer numpy array as magnitude, units given as a dictionary: arithmetic is still done on real numbers
        a_ = draw(st.sampled_from([a for a in G.LIN_PLAIN if not a[1].startswith("[")]))
        u = G.atom(*a_)
        intarr = draw(st.sampled_from(["uint8", "int16", "int64", "int32"]))
        x = draw(st.lists(st.sampled_from([200, 3, 7, 120, 1, 250]), min_size=1, max_size=3))
        p = draw(st.sampled_from([["int", 2], ["int", 3], ["int", -1], ["int", -2], ["pair", 1, 2], ["int", 1]]))
    return {"kind": "pow", "u": u, "x": x, "p": p, "intarr": intarr}


@st.composite
def neg_case(draw):
    u = draw(G.expr_of_dim(draw(st.sampled_from(G.DIMS))))
    return {"kind": "neg", "u": u, "x": draw(G.magnitudes(lo_exp=-30, hi_exp=30))}


def strategies(tier):
    return {"binop": (binop_case(), 3000, 80000), "pow": (pow_case(), 1500, 40000), "neg": (neg_case(), 200, 3000)}


# --------------------------------------------------------------------------- helpers

def _arr(x):
    return np.asarray(x, dtype=float)


def _inrange(vals):
    return all(v == 0 or 1e-280 < abs(v) < 1e280 for v in np.atleast_1d(_arr(vals)).tolist()) and \
        bool(np.all(np.isfinite(_arr(vals))))


def _read(q):
    """-> (atoms dict, factor, dim) of q.units() via the reference lexer"""
    e = q.units()
    atoms = {k: x for k, x in R.parse_simple_expression(e).items() if x != 0}
    f = 1.0
    d = R.ZERO
    for (p, s), x in atoms.items():
        f *= R.atom_factor(p, s) ** float(x)
        d = R.dim_add(d, R.dim_mul(R.atom_dim(s), x))
    return atoms, f, d


def _B(q):
    atoms, f, d = _read(q)
    return _arr(q.value()) * f, atoms, d


def _cmp(got, exp, scale=None):
    g, e = _arr(got), _arr(exp)
    if g.shape != e.shape:
        if g.size == e.size:
            g = g.reshape(e.shape)
        else:
            return False
    sc = np.broadcast_to(_arr(scale), e.shape) if scale is not None else np.maximum(np.abs(g), np.abs(e))
    return bool(np.all(np.abs(g - e) <= TOL * sc + 1e-300))


def _fmt_atoms(a):
    return sorted((p + ":" + s, str(e)) for (p, s), e in a.items())


def _merge(a, b, sgn):
    out = dict(a)
    for k, e in b.items():
        out[k] = out.get(k, F(0)) + sgn * e
    return {k: e for k, e in out.items() if e != 0}


def _dimless_atoms(atoms):
    return all(all(c == 0 for c in R.atom_dim(s)) for (_p, s) in atoms)


def check_bin(case, v):
    from scinumtools.units import Quantity
    op, rel = case["op"], case["rel"]
    tu = R.render(case["u"])
    x, y = case["x"], case["y"]
    if R.evaluate(case["u"])[4] > 60 or (case["v"] and R.evaluate(case["v"])[4] > 60):
        return v.discard("float-range")

    def mk_a():
        return Quantity(x, tu)

    def mk_b():
        if rel == "number_left" and case.get("left_np"):
            return {"float64": np.float64, "float32": np.float32, "array": lambda z: np.asarray(z, dtype=float)}[case["left_np"]](y)
        if rel == "number_right" or rel == "number_left":
            return y
        return Quantity(y, R.render(case["v"]))

    a0 = mk_a()
    Ba, atoms_a, dim_a = _B(a0)
    a_units = a0.units()
    if rel.startswith("number"):
        Bb, atoms_b, dim_b = _arr(y), {}, R.ZERO
    else:
        Bb, atoms_b, dim_b = _B(mk_b())
    if not (_inrange(Ba) and _inrange(Bb)):
        return v.discard("float-range")
    left_is_number = rel == "number_left"
    if left_is_number:
        BL, BR, aL, aR, dL, dR = Bb, Ba, atoms_b, atoms_a, dim_b, dim_a
        L, Rr = mk_b(), mk_a()
        left_units = None
    else:
        BL, BR, aL, aR, dL, dR = Ba, Bb, atoms_a, atoms_b, dim_a, dim_b
        L, Rr = mk_a(), mk_b()
        left_units = a_units
    text = f"{'number' if left_is_number else 'Quantity(%r,%r)' % (x, tu)} {op} " \
           f"{'Quantity(%r,%r)' % (x, tu) if left_is_number else ('number %r' % (y,) if rel.startswith('number') else 'Quantity(%r,%r)' % (y, R.render(case['v'])))}"
    if op in "/":
        if np.any(BR == 0):
            return v.discard("division-by-zero")
    try:
        if op == "+":
            r = L + Rr
        elif op == "-":
            r = L - Rr
        elif op == "*":
            r = L * Rr
        else:
            r = L / Rr
        # the same operand objects once more: an operation must give the same result every time
        r2 = {"+": lambda: L + Rr, "-": lambda: L - Rr, "*": lambda: L * Rr, "/": lambda: L / Rr}[op]()
        if r2.units() != r.units() or not _cmp(_arr(r2.value()), _arr(r.value())):
            return v.fail("op-repeat", f"{text} evaluated twice on the same objects: {r.value()!r} {r.units()} then "
                                       f"{r2.value()!r} {r2.units()}")
    except Exception as e:
        if op in "+-" and dL != dR:
            v.nt(True)
            v.label("refused_sum")
            return
        return v.fail("op-raised", f"{text} raised {e!r}")
    if op in "+-":
        if dL != dR:
            return v.fail("sum-accepted", f"{text} returned {r!r} although the dimensions differ")
        exp = BL + BR if op == "+" else BL - BR
        scale = np.maximum(np.abs(BL), np.abs(BR))
        Br, atoms_r, dim_r = _B(r)
        if not _cmp(Br, exp, scale):
            return v.fail("sum-value", f"{text} = {r.value()!r} {r.units()} (base {Br!r}), expected base {exp!r}")
        if r.units() != left_units:
            return v.fail("sum-units", f"{text} carries units {r.units()!r}, left operand has {left_units!r}")
    else:
        exp = BL * BR if op == "*" else BL / BR
        if not _inrange(exp):
            return v.discard("float-range")
        Br, atoms_r, dim_r = _B(r)
        if not _cmp(Br, exp):
            return v.fail("prod-value", f"{text} = {r.value()!r} {r.units()} (base {Br!r}), expected base {exp!r}")
        want_dim = R.dim_add(dL, dR, 1 if op == "*" else -1)
        if dim_r != want_dim:
            return v.fail("prod-dimension", f"{text}: dimension {[str(c) for c in dim_r]} != {[str(c) for c in want_dim]}")
        want_atoms = _merge(aL, aR, 1 if op == "*" else -1)
        if any(c != 0 for c in want_dim):
            if atoms_r != want_atoms:
                return v.fail("prod-units", f"{text}: units {_fmt_atoms(atoms_r)} != {_fmt_atoms(want_atoms)}")
        else:
            if not _dimless_atoms(atoms_r):
                return v.fail("cancel-units", f"{text}: total dimension is zero but units {r.units()!r} remain")
            v.label("cancellation")
            v.nt(True)
    v.label("op" + op, rel)
    if isinstance(x, list) or isinstance(y, list):
        v.label("array")
    v.nt(rel in ("same_dim", "other_dim", "number_left", "shared_atoms", "recip_dim", "same_ids") or any(c in tu for c in "*/"))
    if "%" in tu or "ppth" in tu or "[pi]" in tu:
        v.label("nodim_factor_unit")


def _power_value(p):
    from scinumtools.units import Fraction as LF
    k = p[0]
    if k == "int":
        return p[1], F(p[1])
    if k == "pair":
        return (p[1], p[2]), F(p[1], p[2])
    if k == "frac":
        return LF(p[1], p[2]), F(p[1], p[2])
    if k == "pyfrac":
        return F(p[1], p[2]), F(p[1], p[2])                 # Python's own fractions.Fraction
    if k == "np32":
        return np.float32(p[1] / p[2]), F(p[1], p[2])       # exactly representable: halves and quarters
    if k == "np16":
        return np.float16(p[1] / p[2]), F(p[1], p[2])
    if k == "np0d":
        return np.array(p[1] / p[2]), F(p[1], p[2])          # a 0-d numpy array (what np.asarray(0.5) or arr.mean() gives)
    return p[1] / p[2], F(p[1], p[2])


def check_pow(case, v):
    from scinumtools.units import Quantity
    tu = R.render(case["u"])
    x = case["x"]
    power, pf = _power_value(case["p"])
    xa = _arr(x)
    if pf.denominator != 1 or pf < 0:
        xa = np.abs(xa)
        if np.any(xa == 0):
            return v.discard("zero-base")
        x = xa.tolist() if isinstance(x, list) else float(xa)
    if R.evaluate(case["u"])[4] > 60:
        return v.discard("float-range")
    a = Quantity(x, tu)
    if case.get("intarr"):
        key = (case["u"][1] + ":" if case["u"][1] else "") + case["u"][2]          # the library's unit id 'k:m'
        a = Quantity(np.array(case["x"], dtype=case["intarr"]), {key: 1})
        v.label("integer_array_with_dict_units")
    Ba, atoms_a, dim_a = _B(a)
    if not _inrange(Ba) or np.any(Ba == 0) and pf <= 0:
        return v.discard("float-range")
    with np.errstate(all="ignore"):
        exp = Ba ** float(pf)
    if not _inrange(exp):
        return v.discard("float-range")
    try:
        r = a ** power
    except Exception as e:
        return v.fail("pow-raised", f"Quantity({x!r},{tu!r})**{power!r} raised {e!r}")
    Br, atoms_r, dim_r = _B(r)
    want = {k: e * pf for k, e in atoms_a.items() if e * pf != 0}
    if any(c != 0 for c in dim_a) or pf == 0:
        if atoms_r != want:
            return v.fail("pow-units", f"Quantity({x!r},{tu!r})**{power!r} ({case['p'][0]}): units {r.units()!r} = "
                                       f"{_fmt_atoms(atoms_r)}, expected {_fmt_atoms(want)}")
    if not _cmp(Br, exp):
        return v.fail("pow-value", f"Quantity({x!r},{tu!r})**{power!r}: {r.value()!r} {r.units()} (base {Br!r}), "
                                   f"expected base {exp!r}")
    v.label("pow_" + case["p"][0])
    v.nt(pf.denominator != 1 or case["p"][0] != "int")


def check_neg(case, v):
    from scinumtools.units import Quantity
    tu = R.render(case["u"])
    if R.evaluate(case["u"])[4] > 60:
        return v.discard("float-range")
    a = Quantity(case["x"], tu)
    Ba, atoms_a, _ = _B(a)
    r = -a
    Br, atoms_r, _ = _B(r)
    if not _cmp(Br, -Ba) or atoms_r != atoms_a or r.units() != a.units():
        return v.fail("neg", f"-Quantity({case['x']!r},{tu!r}) = {r.value()!r} {r.units()!r}")
    v.label("neg")
    v.nt(any(c in tu for c in "*/"))


def check(case):
    v = Verdict()
    try:
        with np.errstate(all="ignore"):
            {"bin": check_bin, "pow": check_pow, "neg": check_neg}[case["kind"]](case, v)
    finally:
        if not R.tables_pristine():
            R.restore_tables()
    return v
