"""C03 — a unit expression means the product of its table entries."""
import string
from fractions import Fraction as F

from hypothesis import strategies as st

from ..core import Verdict, close
from ..refs import units_ref as R

ID = "C03"
RULE = (
    'Unit-expression ASTs (prefixed table atoms incl. constants and #system units, integer / n:d exponents with '
    'denominators up to 1024, numeric factors, * / and nested parentheses) rendered without blanks; oracle = '
    'dictionary lexer over the published tables with exact Fraction dimension vectors and float factors '
    '(BaseUnits.magnitude, .dimensions, unit ids, Quantity(1,text) total factor, expression round-trip). '
    'Rejection: a valid expression with one atom corrupted (foreign characters in front, unknown symbol, '
    'inadmissible prefix) and, exhaustively, every string <one ASCII letter>+<admissible atom> and every '
    '<prefix>+<symbol> pair: must parse to the dictionary entry if it is one, else must raise. Non-trivial: >=2 '
    'terms with a prefix and an exponent != 1, or a rejection string whose suffix is a valid atom, or an accepted '
    "prefixed atom. Later rounds: negative numeric factors ('-2*km', 'm/-4'); a coverage-guided unit over the "
    'same strategy. Round 7: signed denominators (km-1:-2). Round 9: one fractional power repeated 22-60 times '
    '(strategy long_product). Distinct = distinct case JSON.'
)
ASSUMPTIONS = [
    "table rows (factor, dimension vector, admissible prefixes) are the specification",
    "no blanks inside unit expressions (none documented)",
    "cases whose intermediate |log10 factor| exceeds 280 are discarded (float range), counted",
]
NT_FLOOR = 0.3
# coverage-guided complement (sv/fuzz.py): strategy -> number of cases
FUZZ = {"quick": {"valid": 1000}, "thorough": {"valid": 30000, "reject": 15000}}
EXTRA_COVERAGE = {"exhaustive_subdomains": ["all <letter a-zA-Z>+<admissible atom> strings", "all <prefix>+<symbol> pairs",
                                            "all admissible single atoms"],
                  "atom_dictionary_size": len(R.ATOM), "ambiguous_atom_texts": sorted(R.AMBIGUOUS)}

ALL_ATOMS = sorted((p, s) for t, (p, s) in R.ATOM.items())
PREFIXED = [a for a in ALL_ATOMS if a[0]]
PLAIN = [a for a in ALL_ATOMS if not a[0]]
LETTERS = string.ascii_letters

exponent = st.one_of(
    st.just((1, 1)), st.just((1, 1)),
    st.integers(-4, 4).map(lambda n: (n, 1)),
    st.tuples(st.integers(-5, 5).filter(lambda n: n != 0), st.sampled_from([2, 3, 4])),
    # larger denominators (also reached by accumulation: m1:7*m1:11*m1:13 = m311:1001): exponents stay exact rationals
    st.tuples(st.integers(-5, 5).filter(lambda n: n != 0), st.sampled_from([7, 11, 13, 32, 33, 1001, 1024])),
    # a sign on the denominator is accepted and normalised: km-1:-2 is km1:2, km1:-2 is km-1:2
    st.tuples(st.integers(-5, 5).filter(lambda n: n != 0), st.sampled_from([-1, -2, -2, -3, -4])),
)


@st.composite
def unit_term(draw):
    p, s = draw(st.one_of(st.sampled_from(PREFIXED), st.sampled_from(PLAIN), st.sampled_from(PREFIXED)))
    n, d = draw(exponent)
    style = "+" if (n > 0 and draw(st.integers(0, 7)) == 0) else ""
    return ["u", p, s, n, d, style]


num_term = st.sampled_from(["2", "2.5", "1e3", "10", ".5", "3.", "4e2", "1.5e1", "7", "-2", "-1.5e-3", "-4", "-0.5"]).map(lambda x: ["n", x])
leaf = st.one_of(unit_term(), unit_term(), unit_term(), unit_term(), num_term)


def _extend(children):
    return st.one_of(
        st.tuples(st.sampled_from(["*", "*", "/"]), children, children).map(list),
        children.map(lambda c: ["(", c]),
    )


def tree(max_leaves):
    return st.recursive(leaf, _extend, max_leaves=max_leaves)


@st.composite
def valid_case(draw, max_leaves):
    return {"kind": "expr", "tree": draw(tree(max_leaves))}


@st.composite
def long_product_case(draw):
    """the same fractional power many times over (m1:7*m1:7*...): the exponents add up exactly, however large the
    product of the denominators gets on the way"""
    p_, s_ = draw(st.sampled_from([("", "m"), ("", "s"), ("k", "m"), ("", "g"), ("m", "s"), ("", "A")]))
    d = draw(st.sampled_from([7, 11, 13, 457, 1001, 3]))
    n = draw(st.integers(22, 60))          # 7**19 > 2**53: beyond that the denominators are not exact as floats
    t = ["u", p_, s_, 1, d, ""]
    for _ in range(n - 1):
        t = [draw(st.sampled_from(["*", "*", "*", "*", "/"])), t, ["u", p_, s_, 1, d, ""]]
    return {"kind": "expr", "tree": t}


@st.composite
def cancel_case(draw):
    """total dimension zero: a dimensional pair cancels (possibly with different prefixes) next to a dimensionless unit
    that carries a factor (%, ppth, [pi] ...); Quantity(1,text) must hold the product of ALL factors exactly once"""
    from ..refs import unit_gens as G
    d = draw(st.sampled_from(G.NONZERO_DIMS))
    a = G.atom(*draw(st.sampled_from(G.GROUPS_PLAIN[d])))
    b = G.atom(*draw(st.sampled_from(G.GROUPS_PLAIN[d])))
    x = G.atom(*draw(st.sampled_from(G.NODIM_FACTOR)))
    form = draw(st.sampled_from(["x*a/b", "a*x/b", "a/b*x", "a/(b*x)"]))
    t = {"x*a/b": ["/", ["*", x, a], b], "a*x/b": ["/", ["*", a, x], b], "a/b*x": ["*", ["/", a, b], x],
         "a/(b*x)": ["/", a, ["*", b, x]]}[form]
    return {"kind": "expr", "tree": t}


@st.composite
def reject_case(draw, max_leaves):
    t = draw(tree(max_leaves).filter(lambda x: any(l[0] == "u" for l in R.leaves(x))))
    ul = [l for l in R.leaves(t) if l[0] == "u"]
    idx = draw(st.integers(0, len(ul) - 1))
    mode = draw(st.sampled_from(["garbage1", "garbage2", "unknown", "badprefix"]))
    p, s = ul[idx][1], ul[idx][2]
    if mode == "garbage1":
        new = draw(st.sampled_from(LETTERS)) + p + s
    elif mode == "garbage2":
        new = draw(st.text(alphabet=LETTERS + "_", min_size=2, max_size=3)) + p + s
    elif mode == "unknown":
        new = p + draw(st.sampled_from(["xx", "q", "foo", "Zq", "jj", "w", "Q", "mm_", "e"]))
    else:
        new = draw(st.sampled_from(R.PREFIX_ORDER)) + s
    return {"kind": "reject", "tree": t, "index": idx, "mode": mode, "text": new}


@st.composite
def atom_case(draw):
    p, s = draw(st.sampled_from(ALL_ATOMS))
    g = draw(st.text(alphabet=LETTERS, min_size=0, max_size=3))
    n, d = draw(exponent)
    return {"kind": "atom", "text": g + p + s, "exp": [n, d]}


def strategies(tier):
    q, t = (6, 14)
    return {
        "valid": (valid_case(q if tier == "quick" else t), 2500, 60000),
        "cancel": (cancel_case(), 400, 8000),
        "long_product": (long_product_case(), 150, 2500),
        "reject": (reject_case(q if tier == "quick" else t), 1500, 30000),
        "atom_random": (atom_case(), 1500, 30000),
    }


def exhaustive(tier, shard, nshards):
    i = 0
    for text in sorted(R.ATOM):
        if text.startswith("#"):
            continue
        for g in [""] + list(LETTERS):
            if i % nshards == shard:
                yield {"kind": "atom", "text": g + text, "exp": [1, 1]}
            i += 1
    for p in R.PREFIX_ORDER:
        for s in R.UNITS:
            if i % nshards == shard:
                yield {"kind": "atom", "text": p + s, "exp": [1, 1]}
            i += 1


# --------------------------------------------------------------------------- oracle

def _replace_leaf(t, idx, text, counter):
    if t[0] == "u":
        if counter[0] == idx:
            counter[0] += 1
            return ["raw", text, t[3], t[4], t[5]]
        counter[0] += 1
        return t
    if t[0] == "n":
        return t
    if t[0] == "(":
        return ["(", _replace_leaf(t[1], idx, text, counter)]
    return [t[0], _replace_leaf(t[1], idx, text, counter), _replace_leaf(t[2], idx, text, counter)]


def _render_raw(t):
    if t[0] == "raw":
        return R.render(["u", "", t[1], t[2], t[3], t[4]])
    if t[0] in ("u", "n"):
        return R.render(t)
    if t[0] == "(":
        return "(" + _render_raw(t[1]) + ")"
    right = _render_raw(t[2])
    if t[2][0] in ("*", "/"):
        right = "(" + right + ")"
    return _render_raw(t[1]) + t[0] + right


def check_expr(case, v):
    from scinumtools.units import BaseUnits, Quantity
    t = case["tree"]
    text = R.render(t)
    uf, nf, dim, atoms, lg = R.evaluate(t)
    if lg > 280:
        return v.discard("float-range")
    atoms = {k: e for k, e in atoms.items() if e != 0}
    nterms = R.count_terms(t)
    tol = 1e-12 * (nterms + 3)
    try:
        bu = BaseUnits(text)
    except Exception as e:
        return v.fail("valid-rejected", f"BaseUnits({text!r}) raised {e!r}")
    got_dim = R.lib_dims(bu.dimensions)
    if got_dim != dim:
        return v.fail("dimension", f"{text!r}: dimensions {[str(x) for x in got_dim]} != {[str(x) for x in dim]}")
    got_atoms = R.lib_atoms(bu.baseunits)
    if got_atoms != atoms:
        return v.fail("unit-ids", f"{text!r}: units {sorted((p + ':' + s, str(e)) for (p, s), e in got_atoms.items())} != "
                                  f"{sorted((p + ':' + s, str(e)) for (p, s), e in atoms.items())}")
    if not close(bu.magnitude, uf, tol):
        return v.fail("factor", f"{text!r}: BaseUnits.magnitude {bu.magnitude!r} != {uf!r}")
    try:
        q = Quantity(1, text)
    except Exception as e:
        return v.fail("valid-rejected", f"Quantity(1,{text!r}) raised {e!r}")
    total = q.magnitude.value * q.baseunits.magnitude
    if not close(total, uf * nf, tol):
        return v.fail("quantity-factor", f"{text!r}: Quantity(1,text) total factor {total!r} != {uf * nf!r}")
    if R.lib_dims(q.baseunits.dimensions) != dim:
        return v.fail("quantity-dimension", f"{text!r}: Quantity dimensions {q.baseunits.dimensions}")
    # round trip
    e = bu.expression
    if e is None:
        if atoms:
            return v.fail("render", f"{text!r}: expression None but units {atoms}")
        v.label("all_cancel")
    else:
        try:
            back = R.lib_atoms(BaseUnits(e).baseunits)
        except Exception as ex:
            return v.fail("roundtrip", f"{text!r} rendered as {e!r} which does not parse: {ex!r}")
        if back != got_atoms:
            return v.fail("roundtrip", f"{text!r} -> {e!r} -> {back} != {got_atoms}")
        # "gives the same units" also by the library's own notion of equality and in its dictionary form
        again = BaseUnits(e)
        if not (again == bu) or not (bu == again):
            return v.fail("roundtrip-eq", f"BaseUnits({e!r}) != BaseUnits({text!r}) although {e!r} is its rendering "
                                          f"({again.value()} vs {bu.value()})")
        if again.value() != bu.value():
            return v.fail("roundtrip-eq", f"BaseUnits({e!r}).value() = {again.value()} but BaseUnits({text!r}).value() = {bu.value()}")
        try:
            mine = {k: x for k, x in R.parse_simple_expression(e).items() if x != 0}
        except ValueError as ex:
            return v.fail("render", f"{text!r} rendered as {e!r}: {ex}")
        if mine != atoms:
            return v.fail("render", f"{text!r} rendered as {e!r} which reads as {mine}")
    ul = [l for l in R.leaves(t) if l[0] == "u"]
    has_prefix = any(l[1] for l in ul)
    has_exp = any((l[3], l[4]) != (1, 1) for l in ul)
    v.nt(nterms >= 2 and has_prefix and has_exp)
    v.label("expr")
    if any(l[4] != 1 for l in ul):
        v.label("fractional_exp")
    if any(l[0] == "n" for l in R.leaves(t)):
        v.label("numeric_factor")
    if any(l[2].startswith("#") for l in ul):
        v.label("system_unit")
    if any(l[2].startswith("[") for l in ul):
        v.label("constant")
    if "(" in text:
        v.label("parenthesis")
    if any(l[1] == "da" for l in ul):
        v.label("prefix_da")


def check_reject(case, v):
    from scinumtools.units import BaseUnits, Quantity
    new = case["text"]
    if new in R.ATOM or new in R.AMBIGUOUS:
        return v.discard("corruption-is-valid-atom")
    t2 = _replace_leaf(case["tree"], case["index"], new, [0])
    text = _render_raw(t2)
    for name, fn in (("BaseUnits", lambda: BaseUnits(text)), ("Quantity", lambda: Quantity(1, text))):
        try:
            r = fn()
        except Exception:
            continue
        return v.fail("invalid-accepted", f"{name}({text!r}) accepted the atom {new!r} ({case['mode']}) -> {r!r}")
    v.nt(True)
    v.label("reject_" + case["mode"])


def check_atom(case, v):
    from scinumtools.units import BaseUnits
    text = case["text"]
    n, d = case["exp"]
    full = R.render(["u", "", text, n, d, ""])
    if text in R.AMBIGUOUS:
        return v.discard("ambiguous-atom")
    if text in R.ATOM:
        p, s = R.ATOM[text]
        try:
            bu = BaseUnits(full)
        except Exception as e:
            return v.fail("valid-rejected", f"BaseUnits({full!r}) raised {e!r}; dictionary reading {p!r}+{s!r}")
        exp = F(n, d)
        want = {(p, s): exp} if exp != 0 else {}
        got = R.lib_atoms(bu.baseunits)
        if got != want:
            return v.fail("atom-reading", f"{full!r} read as {got}, dictionary says {want}")
        f = R.atom_factor(p, s) ** (n / d) if exp != 0 else 1.0
        if not close(bu.magnitude, f, 1e-12):
            return v.fail("factor", f"{full!r}: magnitude {bu.magnitude!r} != {f!r}")
        if R.lib_dims(bu.dimensions) != R.dim_mul(R.atom_dim(s), exp):
            return v.fail("dimension", f"{full!r}: dimensions {bu.dimensions}")
        v.nt(bool(p))
        v.label("atom_valid")
        if p == "da":
            v.label("prefix_da")
    else:
        try:
            bu = BaseUnits(full)
        except Exception:
            v.nt(True)
            v.label("atom_rejected")
            return
        return v.fail("invalid-accepted", f"BaseUnits({full!r}) accepted a string that is not in the atom dictionary "
                                          f"-> {R.lib_atoms(bu.baseunits)}")


def check(case):
    v = Verdict()
    try:
        {"expr": check_expr, "reject": check_reject, "atom": check_atom}[case["kind"]](case, v)
    finally:
        if not R.tables_pristine():
            R.restore_tables()
    return v
