"""C15 — a node takes effect exactly when all enclosing case clauses are selected."""
import itertools

from hypothesis import strategies as st

from ..core import Verdict
from ..refs import units_ref as R

ID = "C15"
RULE = (
    "Program ASTs: node definitions, modifications of base nodes, '!constant' properties, groups and blocks = "
    'list of clauses (@case with literal true/false or an expression over an earlier node, optional @else) '
    'holding items recursively (depth <= 4); every block closed by @end or by indentation (indentation only where '
    'the next sibling is not itself a block, as the docs require); per-level indentation width 1-4; nodes before, '
    'inside, between and after blocks; the same name defined in several clauses; blocks with compact names '
    "('ga.@case', contents below ga) next to plain ones, where a following block of another path is a new block; "
    'blank and comment lines sprinkled between the lines; conditions with == != < >= <=; a node followed by one '
    'whose value references it, inside clauses (an unselected clause must not even resolve the reference); '
    'imports from a second file inside clauses; chains of 3-4 directly nested blocks under every truth '
    'assignment. Oracle: reference interpreter - selected clause = first true, else @else; an item takes effect '
    'iff every enclosing block selects its clause; case indentation does not enter names. Compared with '
    'env.data() (keys in first-effect order, values) and the constant flags. Programs with a stray @else/@end '
    'where no block is open must raise. Non-trivial: an all-false block closed by indentation and followed by a '
    'node, or nesting inside an unselected clause, or >= 3 clauses. Later rounds: explicit sibling pairs of '
    'compact blocks; @case after @else; parser / environment histories (after a failed parse, on an environment '
    'left with an open block); a foreign @end at the clause indent; property lines directly inside clauses; '
    'ragged clause bodies. Round 8: conditions that hold none; a nested block inside every clause of a block '
    'under all truth assignments. Round 9: nested conditions that refer to a node defined in the enclosing clause '
    'only (the text stays valid when that clause is not selected). Round 10: the same condition text evaluated repeatedly with re-assignments only (no definition) in between. Distinct = distinct rendered text.'
)
ASSUMPTIONS = [
    "conditions inside clauses only refer to nodes defined at the root before the first block",
    "the imported file holds two int nodes; importing it twice below one parent re-assigns the same values",
    "modifications only target those base nodes, so they are valid whenever they take effect",
]
NT_FLOOR = 0.3
# coverage-guided complement (sv/fuzz.py): strategy -> number of cases
FUZZ = {"thorough": {"program": 15000}}
_uid = itertools.count()
BASE = ["b0", "b1", "b2"]


@st.composite
def cond(draw):
    k = draw(st.sampled_from(["true", "false", "false", "expr", "expr", "expr", "nul"]))
    if k == "nul":
        return {"nul": True}           # the condition is a boolean node holding none: not true, so it selects nothing
    if k != "expr":
        return {"lit": k == "true"}
    # a small pool on purpose: the same condition text recurs while the referenced node changes in between
    return {"ref": draw(st.sampled_from(BASE[:2])), "op": draw(st.sampled_from(["==", "==", "!=", "<", ">=", "<="])),
            "rhs": draw(st.integers(0, 2))}


def items(depth):
    name = st.sampled_from(["x", "y", "z", "w", "v", "u"])
    leaf = st.one_of(
        st.tuples(st.just("def"), name, st.integers(0, 99), st.booleans()),   # (def, name, value, followed by !constant)
        st.tuples(st.just("def"), name, st.integers(0, 99), st.just(False)),
        st.tuples(st.just("mod"), st.sampled_from(BASE), st.integers(0, 2)),
        st.tuples(st.just("mod"), st.sampled_from(BASE[:2]), st.integers(0, 2)),
        st.tuples(st.just("unit")),                       # '$unit uN = 2 cm' directly followed by a node that uses it
        st.tuples(st.just("refdef")),                     # a node and, on the next line, one whose value references it
        st.tuples(st.just("simport")),                    # '{aux?*}': two nodes imported from a second file
    ).map(list)
    if depth == 0:
        return st.lists(leaf, min_size=0, max_size=3)

    # compact node names: 'ga.@case ...' puts the clause contents below ga (tests/dip/test_branching.py)
    pfx = st.sampled_from([None, None, None, "ga", "gb", "pc"])

    @st.composite
    def block(draw):
        n = draw(st.sampled_from([1, 1, 2, 2, 3, 4]))
        clauses = [{"cond": draw(cond()), "items": draw(items(depth - 1))} for _ in range(n)]
        els = draw(items(depth - 1)) if draw(st.booleans()) else None
        if draw(st.integers(0, 3)) == 0:
            # the boundary class: nothing selected, closed by indentation
            for c in clauses:
                c["cond"] = {"lit": False}
            return ["block", clauses, None, False, draw(pfx)]
        return ["block", clauses, els, draw(st.booleans()), draw(pfx)]       # explicit @end?, compact-name prefix

    @st.composite
    def group(draw):
        return ["group", "g" + draw(st.sampled_from("abc")), draw(items(depth - 1))]
    return st.lists(st.one_of(leaf, leaf, block(), block(), group()), min_size=1, max_size=4)


@st.composite
def program(draw, depth):
    base = [draw(st.integers(0, 2)) for _ in BASE]
    body = draw(items(draw(st.integers(1, depth))))
    if draw(st.integers(0, 3)) == 0:
        # the same condition text evaluated twice with the referenced node re-assigned in between
        c = draw(cond())
        if "ref" in c:
            blk = lambda n: ["block", [{"cond": dict(c), "items": [["def", n, 1, False]]}], [["def", n, 2, False]], True]
            if draw(st.booleans()):
                body = body + [blk("r1"), ["mod", c["ref"], draw(st.integers(0, 2))], blk("r2")]
            else:
                # the same, with clauses that only re-assign an existing node: no node is defined between the two
                # evaluations of the condition
                tgt = BASE[-1]
                mblk = lambda a, b: ["block", [{"cond": dict(c), "items": [["mod", tgt, a]]}], [["mod", tgt, b]], True]
                body = body + [mblk(1, 2), ["mod", c["ref"], draw(st.integers(0, 2))], mblk(0, 1),
                               ["mod", c["ref"], draw(st.integers(0, 2))], mblk(2, 0)]
    if draw(st.integers(0, 3)) == 0:
        # a chain of 3-4 directly nested blocks with every truth assignment: an unselected clause anywhere up the chain
        # switches everything below it off
        depth_ = draw(st.integers(3, 4))
        inner = [["def", "q", 9, False]]
        for lvl in range(depth_, 0, -1):
            blk_ = ["block", [{"cond": {"lit": draw(st.booleans())},
                               "items": [["def", f"l{lvl}", lvl, False]] + inner + [["def", f"m{lvl}", 10 + lvl, False]]}],
                    None, draw(st.booleans()), None]
            inner = [blk_]
        body = body + inner + [["def", "tail", 1, False]]
    if draw(st.integers(0, 4)) == 0:
        # two blocks with different compact names directly after one another, the first closed by the second
        p1, p2 = draw(st.sampled_from([("ga", "gb"), ("gb", "pc"), ("pc", "ga"), (None, "ga"), ("gb", None)]))
        mk = lambda pf_, nm: ["block", [{"cond": {"lit": draw(st.booleans())}, "items": [["def", nm, 1, False]]}],
                              ([["def", nm, 2, False]] if draw(st.booleans()) else None), False, pf_]
        body = body + [mk(p1, "sa"), mk(p2, "sb"), ["def", "safter", 3, False]]
    if draw(st.integers(0, 5)) == 0:
        # further @case clauses written after the @else of a block: @else catches everything, they never take effect
        blk_ = ["block", [{"cond": {"lit": draw(st.booleans())}, "items": [["def", "pe1", 1, False]]}],
                [["def", "pe2", 2, False]], draw(st.booleans()), None,
                [{"cond": {"lit": draw(st.booleans())}, "items": [["def", "pe3", 3, False]]}]]
        body = body + [blk_, ["def", "peafter", 4, False]]
    if draw(st.integers(0, 3)) == 0:
        # a nested block inside EVERY clause of a block, under every truth assignment: a nested true clause in a later
        # clause must stay off when an earlier clause of the enclosing block was selected
        k = draw(st.integers(2, 3))
        clauses_ = []
        for i in range(k):
            inner = ["block", [{"cond": {"lit": draw(st.booleans())}, "items": [["def", f"li{i}", i, False]]}],
                     ([["def", f"le{i}", i + 5, False]] if draw(st.booleans()) else None), True]
            clauses_.append({"cond": {"lit": draw(st.booleans())}, "items": [["def", f"lo{i}", i, False], inner]})
        body = body + [["block", clauses_, ([["def", "lelse", 8, False]] if draw(st.booleans()) else None), draw(st.booleans())],
                       ["def", "lafter", 9, False]]
    if draw(st.integers(0, 3)) == 0:
        # a nested block whose condition refers to a node that is defined in the enclosing clause only: when that clause
        # is not selected the nested condition cannot be evaluated - and need not be; the rest of the text is unaffected
        v_ = draw(st.integers(0, 2))
        inner = ["block", [{"cond": {"ref": "loc", "op": draw(st.sampled_from(["==", "!=", "<="])), "rhs": draw(st.integers(0, 2))},
                            "items": [["def", "lin", 1, False]]}], ([["def", "lelse2", 2, False]] if draw(st.booleans()) else None), True]
        outer = ["block", [{"cond": {"lit": draw(st.booleans())}, "items": [["def", "loc", v_, False], inner]}],
                 ([["def", "lother", 3, False]] if draw(st.booleans()) else None), draw(st.booleans())]
        body = body + [outer, ["def", "locafter", 4, False]]
    stray = draw(st.sampled_from([None] * 9 + ["else_end", "end_end", "else_start", "end_start", "else_after_closed",
                                               "else_in_clause", "else_in_group", "else_deeper_after_node",
                                               "else_in_unselected_clause", "second_end_in_unselected_clause",
                                               "foreign_end_compact", "foreign_end_plain", "property_in_selected_clause"]))
    # blank and comment lines are legal anywhere and must not end (or keep open) a clause
    fill = draw(st.one_of(st.none(), st.lists(st.sampled_from([0, 0, 0, 1, 2, 3]), min_size=8, max_size=8)))
    return {"base": base, "items": body, "widths": draw(st.lists(st.integers(1, 4), min_size=6, max_size=6)), "stray": stray,
            "fill": fill, "ptail": draw(st.integers(0, 5)) == 0, "ragged": draw(st.integers(0, 3)) == 0, "history": draw(st.sampled_from([None, None, None, "after_failed_parse", "on_env_with_open_block"]))}


def strategies(tier):
    return {"program": (program(3 if tier == "quick" else 4), 2500, 60000)}


# --------------------------------------------------------------------------- rendering

def cond_text(c):
    if "nul" in c:
        return '("{?nul}")'
    if "lit" in c:
        return "true" if c["lit"] else "false"
    return f'("{{?{c["ref"]}}} {c["op"]} {c["rhs"]}")'


def _block(it):
    return list(it[:5]) if len(it) >= 5 else list(it) + [None]


def _post(it):
    """clauses written after the @else of the block (never selected)"""
    return it[5] if len(it) >= 6 else []


def _explicit_end(its, idx):
    """@end is written where asked for, and where the next sibling is a block of the same path (otherwise its first
    @case would read as a further clause of this block)."""
    _b, _clauses, _els, end, pf = _block(its[idx])
    nxt = its[idx + 1] if idx + 1 < len(its) else None
    return bool(end or (nxt is not None and nxt[0] == "block" and _block(nxt)[4] == pf))


def _uses_aux(its):
    for it in its:
        if it[0] == "simport":
            return True
        if it[0] == "group" and _uses_aux(it[2]):
            return True
        if it[0] == "block":
            if any(_uses_aux(c["items"]) for c in it[1]) or (it[2] is not None and _uses_aux(it[2])):
                return True
    return False


RAGGED = [False]


def render_items(its, level, widths, out, prefix="", in_clause=False):
    ind = " " * sum(widths[:level])
    for idx, it in enumerate(its):
        k = it[0]
        if k == "def":
            # ragged clause bodies: the first line of a clause may be indented deeper than the lines that follow it
            extra = "    " if (RAGGED[0] and in_clause and idx == 0 and not it[3] and len(its) > 1 and its[1][0] in ("def", "mod")) else ""
            out.append(f"{ind}{extra}{it[1]} int = {it[2]}")
            if it[3]:
                out.append(f"{ind}{' ' * widths[level]}!constant")
        elif k == "mod":
            out.append(f"{ind}{it[1]} = {it[2]}")
        elif k == "unit":
            out.append(f"{ind}$unit u{it[1]} = 2 cm")
            out.append(f"{ind}uv{it[1]} float = 3 [u{it[1]}]")
        elif k == "simport":
            out.append(f"{ind}{{aux?*}}")
        elif k == "refdef":
            out.append(f"{ind}rw{it[1]} int = 7")
            out.append(f"{ind}rd{it[1]} int = {{?{prefix}rw{it[1]}}}")
        elif k == "group":
            out.append(f"{ind}{it[1]}")
            render_items(it[2], level + 1, widths, out, prefix + it[1] + ".")
        else:
            _b, clauses, els, end, pf = _block(it)
            dot = pf + "." if pf else ""
            for c in clauses:
                out.append(f"{ind}{dot}@case {cond_text(c['cond'])}")
                render_items(c["items"], level + 1, widths, out, prefix + dot, True)
            if els is not None:
                out.append(f"{ind}{dot}@else")
                render_items(els, level + 1, widths, out, prefix + dot, True)
            for c in _post(it):
                out.append(f"{ind}{dot}@case {cond_text(c['cond'])}")
                render_items(c["items"], level + 1, widths, out, prefix + dot, True)
            if _explicit_end(its, idx):
                out.append(f"{ind}{dot}@end")


def render(case):
    out = [f"{n} int = {v}" for n, v in zip(BASE, case["base"])] + ["nul bool = none"]
    if _uses_aux(case["items"]):
        out = ["$source aux = @AUXPATH@"] + out
    body = []
    RAGGED[0] = bool(case.get("ragged"))
    render_items(case["items"], 0, case["widths"], body)
    RAGGED[0] = False
    if case.get("fill"):
        filled = []
        for i, line in enumerate(body):
            f = case["fill"][i % len(case["fill"])]
            if f:
                filled.append({1: "", 2: "# note", 3: "        # indented note"}[f])
            filled.append(line)
        body = filled
    s = case["stray"]
    if s == "else_start":
        out = ["@else", "  q int = 1"] + out + body
    elif s == "end_start":
        out = ["@end"] + out + body
    elif s == "else_end":
        out = out + body + ["last int = 1", "@else", "  q int = 1"]
    elif s == "end_end":
        out = out + body + ["last int = 1", "@end"]
    elif s == "else_after_closed":
        out = out + body + ["@case true", "  q1 int = 1", "@end", "@else", "  q2 int = 2"]
    elif s == "else_in_clause":
        out = out + body + ["@case true", "  @else", "    q1 int = 1", "@end"]
    elif s == "else_in_group":
        out = out + body + ["grp", "  @else", "    q1 int = 1"]
    elif s == "foreign_end_compact":
        out = out + body + ["ga.@case true", "  q1 int = 1", "gb.@end", "q2 int = 2"]
    elif s == "foreign_end_plain":
        out = out + body + ["@case true", "  q1 int = 1", "gb.@end", "q2 int = 2"]
    elif s == "property_in_selected_clause":
        # a property line directly in a clause belongs to the node before the block: selected -> the node is constant
        out = out + body + ["pz int = 1", " @case true", "  !constant", " @end", "pz = 2"]
    elif s == "else_in_unselected_clause":
        out = out + body + ["@case false", "  @else", "    q1 int = 1", "@end"]
    elif s == "second_end_in_unselected_clause":
        out = out + body + ["@case false", "  @case true", "    q1 int = 1", "  @end", "  @end", "@end"]
    elif s == "else_deeper_after_node":
        out = out + body + ["@case true", "  q0 int = 1", "  @else", "    q1 int = 2", "@end"]
    else:
        out = out + body
    if case.get("ptail") and not s:
        out = out + ["pz int = 1", " @case false", "  !constant", " @end", "pz = 2"]
    return "\n".join(out)


# --------------------------------------------------------------------------- reference interpreter

def truth(c, model):
    if "nul" in c:
        return False
    if "lit" in c:
        return c["lit"]
    if c["ref"] not in model:
        return False            # the referenced node lives in a clause that is not selected: so is this one
    a, b = model[c["ref"]], c["rhs"]
    return {"==": a == b, "!=": a != b, "<": a < b, ">=": a >= b, "<=": a <= b}[c["op"]]


def interpret(case):
    model = {}
    const = {}
    info = {"allfalse_indent_then_node": False, "nested_in_unselected": False, "max_clauses": 0,
            "compact_names": False, "sibling_blocks_by_indent": False, "reference_in_unselected": False,
            "import_from_second_file": False, "clauses_after_else": False,
            "property_in_unselected_clause": False, "ragged_clause_body": False}
    for n, v in zip(BASE, case["base"]):
        model[n] = v
        const[n] = False
    model["nul"] = None
    const["nul"] = False

    def walk(its, prefix, active):
        for idx, it in enumerate(its):
            k = it[0]
            if k == "def":
                if active:
                    path = prefix + it[1]
                    model[path] = it[2]
                    const.setdefault(path, False)
                    if it[3]:
                        const[path] = True
            elif k == "mod":
                if active:
                    model[it[1]] = it[2]
            elif k == "unit":
                if active:
                    model[prefix + f"uv{it[1]}"] = 3.0
                    const.setdefault(prefix + f"uv{it[1]}", False)
            elif k == "simport":
                if active:
                    for nm, val in (("auxa", 5), ("auxb", 6)):
                        model[prefix + nm] = val
                        const.setdefault(prefix + nm, False)
                    info["import_from_second_file"] = True
            elif k == "refdef":
                if active:
                    for nm in (f"rw{it[1]}", f"rd{it[1]}"):
                        model[prefix + nm] = 7
                        const.setdefault(prefix + nm, False)
                else:
                    info["reference_in_unselected"] = True
            elif k == "group":
                walk(it[2], prefix + it[1] + ".", active)
            else:
                _b, clauses, els, end, pf = _block(it)
                inner = prefix + (pf + "." if pf else "")
                if pf:
                    info["compact_names"] = True
                info["max_clauses"] = max(info["max_clauses"], len(clauses) + (els is not None))
                chosen = None
                for i, c in enumerate(clauses):
                    # conditions are only evaluated where they matter for the model: inside an inactive region the
                    # truth value has no observable effect
                    if chosen is None and truth(c["cond"], model if active else dict(model)):
                        chosen = i
                if not active and any(x[0] in ("def", "mod", "block") for c in clauses for x in c["items"]):
                    info["nested_in_unselected"] = True
                for i, c in enumerate(clauses):
                    walk(c["items"], inner, active and chosen == i)
                if els is not None:
                    walk(els, inner, active and chosen is None)
                for c in _post(it):
                    walk(c["items"], inner, False)
                    info["clauses_after_else"] = True
                nxt = its[idx + 1] if idx + 1 < len(its) else None
                explicit = _explicit_end(its, idx)
                if not explicit and nxt is not None and nxt[0] == "block":
                    info["sibling_blocks_by_indent"] = True
                if active and chosen is None and els is None and not explicit and nxt is not None:
                    info["allfalse_indent_then_node"] = True
    walk(case["items"], "", True)
    if case.get("ptail") and not case.get("stray"):
        model["pz"] = 2
        const["pz"] = False
        info["property_in_unselected_clause"] = True
    return model, const, info


def has_constant_conflict(case):
    """A modification of a node that an effective !constant protects would (correctly) raise: keep programs valid."""
    return False


def check(case):
    v = Verdict()
    try:
        _check(case, v)
    finally:
        if not R.tables_pristine():
            R.restore_tables()
    return v


def _redefinition_of_constant(case):
    """True if some effective definition re-assigns a path that an earlier effective !constant froze."""
    frozen = set()
    bad = [False]
    model = {n: v for n, v in zip(BASE, case["base"])}

    def walk(its, prefix, active):
        for it in its:
            k = it[0]
            if k == "def":
                if active:
                    path = prefix + it[1]
                    if path in frozen:
                        bad[0] = True
                    model[path] = it[2]
                    if it[3]:
                        frozen.add(path)
            elif k == "mod":
                if active:
                    model[it[1]] = it[2]
            elif k in ("unit", "refdef", "simport"):
                pass
            elif k == "group":
                walk(it[2], prefix + it[1] + ".", active)
            else:
                _b, clauses, els, _end, pf = _block(it)
                inner = prefix + (pf + "." if pf else "")
                chosen = None
                for i, c in enumerate(clauses):
                    if chosen is None and truth(c["cond"], model):
                        chosen = i
                for i, c in enumerate(clauses):
                    walk(c["items"], inner, active and chosen == i)
                if els is not None:
                    walk(els, inner, active and chosen is None)
    walk(case["items"], "", True)
    return bad[0]


def _normalise(its, in_group, counter=None):
    """A modification below a group would address '<group>.<base>' (undefined): turn it into a local definition.
    Definitions followed by !constant get a unique name: a property after a RE-definition attaches to whatever node
    was appended last, which is not what this property is about."""
    counter = counter if counter is not None else itertools.count()
    out = []
    for it in its:
        if it[0] in ("unit", "refdef"):
            out.append([it[0], next(counter)])
        elif it[0] == "simport":
            out.append(["simport"])
        elif it[0] == "def" and it[3]:
            out.append(["def", f"k{next(counter)}", it[2], True])
        elif it[0] == "mod" and in_group:
            out.append(["def", "m" + it[1], it[2], False])
        elif it[0] == "group":
            out.append(["group", it[1], _normalise(it[2], True, counter)])
        elif it[0] == "block":
            pf = _block(it)[4]
            ing = in_group or bool(pf)
            out.append(["block", [{"cond": c["cond"], "items": _normalise(c["items"], ing, counter)} for c in it[1]],
                        None if it[2] is None else _normalise(it[2], ing, counter), it[3], pf] +
                       ([[{"cond": c["cond"], "items": _normalise(c["items"], ing, counter)} for c in _post(it)]] if _post(it) else []))
        else:
            out.append(it)
    return out


def _check(case, v):
    from scinumtools.dip import DIP, Format
    case = dict(case, items=_normalise(case["items"], False))
    if _redefinition_of_constant(case):
        return v.discard("constant-redefined")
    text = render(case)
    model, const, info = interpret(case)
    tmp = None
    run_text = text
    if "@AUXPATH@" in text:
        import os
        import tempfile
        tmp = tempfile.mkdtemp(prefix="svc15_")
        with open(os.path.join(tmp, "aux.dip"), "w") as f:
            f.write("auxa int = 5\nauxb int = 6\n")
        run_text = text.replace("@AUXPATH@", os.path.join(tmp, "aux.dip"))
        text = text.replace("@AUXPATH@", "aux.dip   # holds: auxa int = 5 / auxb int = 6")
    hist = case.get("history")
    pre_nodes = {}
    try:
        try:
            if hist == "after_failed_parse":
                # the same parser object was first given a text with a misplaced @else inside an open block (refused)
                with DIP(name=f"c15_{next(_uid)}") as p:
                    p.add_string("@case true\n  zz int = 1\n  @else")
                    try:
                        p.parse()
                    except Exception:
                        pass
                    p.add_string(run_text)
                    env = p.parse()
                text = "# (after a refused text on the same parser object)\n" + text
            elif hist == "on_env_with_open_block":
                # parsed on top of an environment that another parser used before, for a text that ended inside an
                # open block: that parser worked on its own copy
                with DIP(name=f"c15_{next(_uid)}") as p0:
                    p0.add_string("pre int = 1")
                    env0 = p0.parse()
                with DIP(env0, name=f"c15_{next(_uid)}") as p1:
                    p1.add_string("@case false\n  other int = 2")
                    p1.parse()
                pre_nodes = {"pre": 1}
                with DIP(env0, name=f"c15_{next(_uid)}") as p:
                    p.add_string(run_text)
                    env = p.parse()
                text = "# (on an environment another parser had used for a text ending inside an open block)\n" + text
            else:
                with DIP(name=f"c15_{next(_uid)}") as p:
                    p.add_string(run_text)
                    env = p.parse()
            data = env.data()
            for k_ in pre_nodes:
                if data.get(k_) != pre_nodes[k_]:
                    return v.fail("effect", f"base node {k_} = {data.get(k_)!r} for:\n{text}")
                data.pop(k_)
            nodes = env.data(Format.NODE)
        finally:
            if tmp:
                import shutil
                shutil.rmtree(tmp, ignore_errors=True)
    except Exception as e:
        if case["stray"]:
            v.nt(True)
            v.label("stray_" + case["stray"])
            return
        return v.fail("parse-raised", f"raised {e!r} for:\n{text}")
    if case["stray"]:
        return v.fail("stray-accepted", f"a stray clause keyword ({case['stray']}) was accepted, data={data!r}:\n{text}")
    if list(data.keys()) != list(model.keys()) or any(data[k] != model[k] for k in model):
        extra = {k: data[k] for k in data if k not in model}
        missing = {k: model[k] for k in model if k not in data}
        wrong = {k: (data[k], model[k]) for k in model if k in data and data[k] != model[k]}
        return v.fail("effect", f"data {data!r} != expected {model!r} (took effect wrongly: {extra}, dropped: {missing}, "
                                f"wrong value (got, expected): {wrong}) for:\n{text}")
    for k, c in const.items():
        if bool(nodes[k].constant) != c:
            return v.fail("property-effect", f"{k}.constant = {nodes[k].constant}, expected {c} for:\n{text}")
    v.nt(info["allfalse_indent_then_node"] or info["nested_in_unselected"] or info["max_clauses"] >= 3)
    v.label("program")
    if case.get("ragged") and "    " in text:
        v.label("ragged_clause_body")
    if case.get("history"):
        v.label(case["history"])
    if case.get("fill") and any(case["fill"]):
        v.label("blank_or_comment_lines")
    for key in ("allfalse_indent_then_node", "nested_in_unselected", "compact_names", "sibling_blocks_by_indent",
                "reference_in_unselected", "import_from_second_file",
                "clauses_after_else", "property_in_unselected_clause", "ragged_clause_body"):
        if info[key]:
            v.label(key)
    if info["max_clauses"] >= 3:
        v.label("clauses>=3")
    v.info = {"text": text}
