"""C01 — expression solver evaluates by the documented step table."""
import numpy as np
from hypothesis import strategies as st

from ..core import Verdict, close
from ..refs import expr_ref as E

ID = "C01"
RULE = (
    'Expression ASTs of the stratified grammar (or > and > not > cmp > add > mul > pow > unary-sign chain > '
    'number | ( ) | f(x) | f(x,y)), rendered tight and with 0-2 random blanks at every legal token boundary. '
    'Oracle: an independent level-by-level left-to-right evaluator (documented step table) sharing only scalar '
    'primitives with the library; value and bool/number class must agree for both renderings. Ill-formed: exactly '
    'one edit of a well-formed token list in the three classes the property names (drop/insert one parenthesis; '
    'drop/add one function argument with its comma; delete one operand of a binary operator where the rest cannot '
    'be re-read as a unary sign; and - the same kind of single edit - one operator deleted between parenthesised '
    "operands: '(1)(2)', '2(3)') must raise. Strategy long_flat: 65-200 operands on one nesting level. "
    'Non-trivial: >=3 operators from >=2 steps, or a sign adjacent to **, or a chained comparison, or function '
    'nesting >=2, or an ill-formed variant. Rounds 7-8: empty parentheses in place of a number or of a lone '
    "operand (the single edit 'operand deleted'); comparisons of operands that are equal or differ by rounding "
    'noise, decided exactly (strategy near_equal). Distinct = distinct rendered string(s).'
)
ASSUMPTIONS = [
    "default AtomBase atoms; literals are digits, decimals and unsigned exponents (1e3)",
    "cases where the reference itself hits a domain error (division by zero, overflow, complex power) are discarded",
    "floating primitives (+ - * / **, numpy log/sqrt/sin...) are shared with the library: the property is about order",
]
NT_FLOOR = 0.3
# coverage-guided complement (sv/fuzz.py): strategy -> number of cases; a small one in the quick tier keeps it exercised
FUZZ = {"quick": {"valid": 1500}, "thorough": {"valid": 40000, "illformed": 20000}}


@st.composite
def valid_case(draw, depth):
    t = draw(E.expr(depth=depth, top=draw(st.sampled_from(["or", "or", "add", "add", "cmp"]))))
    blanks = draw(st.lists(st.integers(0, 2), min_size=3, max_size=12))
    return {"kind": "valid", "tree": t, "blanks": blanks}


def _operand_positions(t, path=()):
    """Yield (path_to_chain, which) for deletable operands: which = 'first' or 'last'."""
    k = t[0]
    if k == "chain":
        yield (path, "first", t[3][0][0])
        yield (path, "last", t[3][-1][0])
        yield from _operand_positions(t[2], path + (2,))
        for i, (_op, operand) in enumerate(t[3]):
            yield from _operand_positions(operand, path + (3, i, 1))
    elif k in ("par", "not"):
        yield from _operand_positions(t[1], path + (1,))
    elif k == "f1":
        yield from _operand_positions(t[2], path + (2,))
    elif k == "f2":
        yield from _operand_positions(t[2], path + (2,))
        yield from _operand_positions(t[3], path + (3,))
    elif k == "una":
        yield from _operand_positions(t[2], path + (2,))


def _juxtapositions(toks):
    """indices of binary operators whose removal leaves two operands side by side with a parenthesis between them
    ('(1)(2)', '2(3)', 'sin(1)4'): neither a longer number nor a sign, so the string is ill-formed"""
    out = []
    for i, (x, g) in enumerate(toks):
        if g != "bin" or i == 0 or i + 1 >= len(toks):
            continue
        left, right = toks[i - 1], toks[i + 1]
        if left[1] in ("num", "close") and right[1] in ("num", "open", "fn") and (left[1] == "close" or right[1] != "num"):
            out.append(i)
    return out


def _lone_operands(toks):
    """indices of numbers that are the whole content of a pair of parentheses or of a function argument: '(2)', 'sin(2)',
    'pow(2,3)'; deleting one leaves '()', 'sin()', 'pow(,3)'"""
    return [i for i in range(1, len(toks) - 1) if toks[i][1] == "num" and toks[i - 1][1] in ("open", "fn", "comma")
            and toks[i + 1][1] in ("close", "comma")]


@st.composite
def illformed_case(draw, depth):
    t = draw(E.expr(depth=depth, top=draw(st.sampled_from(["or", "add", "add", "cmp"]))))
    toks = E.tokens(t)
    modes = ["insert_open", "insert_close"]
    if any(tag == "open" for _x, tag in toks):
        modes += ["drop_open"] * 2
    if any(tag == "close" for _x, tag in toks):
        modes += ["drop_close"] * 2
    if any(tag == "fn" for _x, tag in toks):
        modes += ["arg_add"] * 3 + ["arg_add_empty"] * 2
    if any(tag == "comma" for _x, tag in toks):
        modes += ["arg_drop"] * 3
    if any(tag == "bin" for _x, tag in toks):
        modes += ["operand"] * 5
    if _juxtapositions(toks):
        modes += ["drop_operator"] * 3
    if _lone_operands(toks):
        modes += ["empty_par"] * 3
    if any(tag == "num" for _x, tag in toks):
        modes += ["empty_par_num"] * 3
    mode = draw(st.sampled_from(modes))
    pick = draw(st.integers(0, 10 ** 6))
    loose = draw(st.booleans())
    return {"kind": "ill", "tree": t, "mode": mode, "pick": pick, "loose": loose,
            "extra": draw(st.sampled_from(E.NUMBERS))}


@st.composite
def long_flat_case(draw):
    """65-200 operands on ONE nesting level (the grammar puts no bound on the length of an expression)"""
    n = draw(st.integers(65, 200))
    first = ["num", draw(st.sampled_from(["1", "2", "3", "0.5"]))]
    rest = []
    for _ in range(n - 1):
        op = draw(st.sampled_from(["+", "+", "-", "*"]))
        rest.append([op, ["num", draw(st.sampled_from(["1", "2", "3", "0.5", "1.5"]))]])
    return {"kind": "flat", "first": first, "rest": rest, "blanks": draw(st.booleans())}


NEAR = [("0.1+0.2", "0.3"), ("0.3", "0.1+0.2"), ("1", "1.0000000001"), ("1/49*49", "1"), ("0.1*3", "0.3"), ("2.5", "2.5"),
        ("1e16+1", "1e16"), ("0.7+0.1", "0.8"), ("1.1*1.1", "1.21"), ("3", "3.0"), ("4.35*100", "435"), ("1/3*3", "1")]


@st.composite
def near_equal_case(draw):
    """comparisons of numbers that differ by rounding noise or not at all: decided by the exact values, as Python does"""
    left, right = draw(st.sampled_from(NEAR))
    return {"kind": "near", "left": left, "right": right, "op": draw(st.sampled_from(["==", "!=", "<=", ">=", "<", ">"])),
            "blanks": draw(st.booleans())}


def strategies(tier):
    dq, dt = 2, 4
    return {
        "long_flat": (long_flat_case(), 80, 1500, 10),
        "near_equal": (near_equal_case(), 100, 600),
        "valid": (valid_case(dq if tier == "quick" else dt), 3000, 60000),
        "illformed": (illformed_case(dq if tier == "quick" else dt), 2000, 40000),
    }


# --------------------------------------------------------------------------- oracle

def _solve(text):
    from scinumtools.solver import ExpressionSolver, AtomBase
    with ExpressionSolver(AtomBase) as es:
        return es.solve(text)


def _isbool(x):
    return isinstance(x, (bool, np.bool_))


def _agree(got, exp, by_value=False):
    if by_value:
        # two cancelling signs in front of a truth value: 0/1 and False/True are the same value (see expr_ref)
        try:
            return close(float(got), float(exp), 1e-12, 0.0)
        except (TypeError, ValueError):
            return False
    if _isbool(got) != _isbool(exp):
        return False
    if _isbool(exp):
        return bool(got) == bool(exp)
    return close(got, exp, 1e-12, 0.0)


def check_valid(case, v):
    t = case["tree"]
    toks = E.tokens(t)
    tight = E.render(toks)
    loose = E.render(toks, case["blanks"])
    if len(tight) > 400:
        return v.discard("too-long")
    try:
        with np.errstate(all="ignore"):
            exp = E.evaluate(t)
    except E.Domain:
        return v.discard("domain-error")
    if isinstance(exp, complex) or (not _isbool(exp) and not isinstance(exp, (int, float, np.floating, np.integer))):
        return v.discard("domain-error")
    results = []
    by_value = E.sign_pairs_on_boolean(t)
    for text in (tight, loose):
        try:
            with np.errstate(all="ignore"):
                r = _solve(text)
        except Exception as e:
            return v.fail("valid-raised", f"solve({text!r}) raised {e!r}; documented order gives {exp!r}")
        if r is None or not hasattr(r, "value"):
            return v.fail("no-value", f"solve({text!r}) returned {r!r}; expected {exp!r}")
        if not _agree(r.value, exp, by_value):
            return v.fail("value", f"solve({text!r}) = {r.value!r}; documented order gives {exp!r}")
        results.append(r.value)
    if not _agree(results[0], results[1], by_value):
        return v.fail("blanks", f"{tight!r} -> {results[0]!r} but {loose!r} -> {results[1]!r}")
    s = E.stats(t)
    steps = {st_ for _o, st_ in s["ops"]}
    v.nt((len(s["ops"]) >= 3 and len(steps) >= 2) or s["sign_pow"] or s["chained_cmp"] or s["fn_depth"] >= 2)
    v.label("valid")
    if by_value:
        v.label("cancelling_signs_on_truth_value(compared_by_value)")
    for name in steps:
        v.label("step_" + name)
    if s["sign_pow"]:
        v.label("sign_next_to_pow")
    if s["chained_cmp"]:
        v.label("chained_cmp")
    if s["fn_depth"] >= 2:
        v.label("fn_nesting>=2")
    if E.has_sign_chain_before_pow_after_binary(t):
        v.label("binary_then_sign_then_pow")
    v.info = {"text": loose, "value": repr(exp)}


def _get(t, path):
    for p in path:
        t = t[p]
    return t


def _set(t, path, new):
    import copy
    t = copy.deepcopy(t)
    if not path:
        return new
    cur = t
    for p in path[:-1]:
        cur = cur[p]
    cur[path[-1]] = new
    return t


def _mutate(case):
    """-> (token list or None, description)"""
    t, mode, pick = case["tree"], case["mode"], case["pick"]
    toks = E.tokens(t)
    if mode in ("insert_open", "insert_close"):
        i = pick % (len(toks) + 1)
        new = ("(", "open") if mode == "insert_open" else (")", "close")
        return toks[:i] + [new] + toks[i:], f"{mode} at token {i}"
    if mode == "drop_operator":
        idx = _juxtapositions(toks)
        if not idx:
            return None, "no operator between parenthesised operands"
        i = idx[pick % len(idx)]
        return toks[:i] + toks[i + 1:], f"operator {toks[i][0]} deleted between {toks[i - 1][0]} and {toks[i + 1][0]}"
    if mode == "empty_par":
        idx = _lone_operands(toks)
        if not idx:
            return None, "no lone operand"
        i = idx[pick % len(idx)]
        return toks[:i] + toks[i + 1:], f"operand {toks[i][0]} deleted from between {toks[i - 1][0]} and {toks[i + 1][0]}"
    if mode == "empty_par_num":
        # the same expression with one number written in parentheses, '(3)', is well-formed; its single edit 'operand
        # deleted' leaves an empty pair of parentheses in the number's place
        idx = [i for i, (_x, g) in enumerate(toks) if g == "num"]
        i = idx[pick % len(idx)]
        return toks[:i] + [("(", "open"), (")", "close")] + toks[i + 1:], f"number {toks[i][0]} replaced by empty parentheses"
    if mode in ("drop_open", "drop_close"):
        tag = "open" if mode == "drop_open" else "close"
        idx = [i for i, (_x, g) in enumerate(toks) if g == tag]
        i = idx[pick % len(idx)]
        return toks[:i] + toks[i + 1:], f"{mode} token {i}"
    if mode in ("arg_add", "arg_add_empty"):
        # add one argument (with its comma) right before the closing parenthesis of a function call
        idx = [i for i, (_x, g) in enumerate(toks) if g == "fn"]
        i = idx[pick % len(idx)]
        depth = 0
        for j in range(i + 1, len(toks)):
            g = toks[j][1]
            if g in ("open", "fn"):
                depth += 1
            elif g == "close":
                if depth == 0:
                    if mode == "arg_add_empty":
                        return toks[:j] + [(",", "comma")] + toks[j:], f"extra empty argument in {toks[i][0]}"
                    return toks[:j] + [(",", "comma"), (case["extra"], "num")] + toks[j:], f"extra argument in {toks[i][0]}"
                depth -= 1
        return None, "no closing"
    if mode == "arg_drop":
        # remove the second argument of a two-argument function together with its comma
        idx = [i for i, (_x, g) in enumerate(toks) if g == "comma"]
        i = idx[pick % len(idx)]
        depth = 0
        for j in range(i + 1, len(toks)):
            g = toks[j][1]
            if g in ("open", "fn"):
                depth += 1
            elif g == "close":
                if depth == 0:
                    return toks[:i] + toks[j:], "second argument dropped"
                depth -= 1
        return None, "no closing"
    # operand deletion on the AST
    pos = list(_operand_positions(t))
    if not pos:
        return None, "no binary operator"
    path, which, op = pos[pick % len(pos)]
    chain = _get(t, path)
    if which == "first":
        if op in ("+", "-"):
            return None, "left operand of a sign operator (re-read as unary)"
        new = _set(t, path + (2,), ["empty"])
        return E.tokens(new), f"left operand of {op} deleted"
    new = _set(t, path + (3, len(chain[3]) - 1, 1), ["empty"])
    nt = E.tokens(new)
    # locate what follows the now dangling operator: it must not be a +/- (which would be re-read as a sign)
    marker = _set(t, path + (3, len(chain[3]) - 1, 1), ["num", "@@"])
    mt = E.tokens(marker)
    k = [i for i, (x, _g) in enumerate(mt) if x == "@@"][0]
    nxt = mt[k + 1] if k + 1 < len(mt) else None
    if nxt is not None and nxt[0] in ("+", "-"):
        return None, "dangling operator followed by +/- (re-read as unary sign)"
    if nxt is not None and nxt[1] not in ("close", "comma", "bin"):
        return None, "unexpected follower"
    return nt, f"right operand of {op} deleted (followed by {nxt[0] if nxt else 'end'})"


def check_ill(case, v):
    toks, desc = _mutate(case)
    if toks is None:
        return v.discard("edit-not-applicable: " + desc.split(" (")[0])
    if not toks:
        return v.discard("empty")
    text = E.render(toks, [1] if (case["loose"] or case["mode"] == "operand") else None)
    if len(text) > 400:
        return v.discard("too-long")
    try:
        with np.errstate(all="ignore"):
            r = _solve(text)
    except Exception:
        v.nt(True)
        v.label("ill_" + case["mode"])
        v.info = {"text": text, "edit": desc}
        return
    return v.fail("illformed-accepted", f"solve({text!r}) returned {r!r} although the string is ill-formed ({desc}; "
                                        f"original {E.render(E.tokens(case['tree']))!r})")


def check_flat(case, v):
    sep = " " if case["blanks"] else ""
    text = case["first"][1] + "".join(f"{sep}{op}{sep}{x[1]}" for op, x in case["rest"])
    # reference: products first (left to right), then sums and differences (left to right)
    terms, ops = [float(case["first"][1])], []
    for op, x in case["rest"]:
        val = float(x[1])
        if op == "*":
            terms[-1] *= val
        else:
            ops.append(op)
            terms.append(val)
    acc = terms[0]
    for op, t in zip(ops, terms[1:]):
        acc = acc + t if op == "+" else acc - t
    if not np.isfinite(acc):
        return v.discard("domain-error")
    try:
        r = _solve(text)
    except Exception as e:
        return v.fail("valid-raised", f"solve() of a well-formed expression with {len(case['rest']) + 1} operands on one "
                                      f"level raised {e!r}: {text[:120]}...")
    got = getattr(r, "value", r)
    if not close(float(got), acc, 1e-9, 1e-9):
        return v.fail("value", f"{len(case['rest']) + 1} operands on one level: got {got!r}, expected {acc!r}: {text[:120]}...")
    v.nt(True)
    v.label("long_flat")


def _flat_value(text):
    """products and quotients first (left to right), then sums and differences (left to right)"""
    import re
    toks = re.findall(r"[-+*/]|[0-9.]+(?:e[0-9]+)?", text)
    terms, ops = [float(toks[0])], []
    for op, x in zip(toks[1::2], toks[2::2]):
        if op in "*/":
            terms[-1] = terms[-1] * float(x) if op == "*" else terms[-1] / float(x)
        else:
            ops.append(op)
            terms.append(float(x))
    acc = terms[0]
    for op, t in zip(ops, terms[1:]):
        acc = acc + t if op == "+" else acc - t
    return acc


def check_near(case, v):
    import operator
    a, b = _flat_value(case["left"]), _flat_value(case["right"])
    want = {"==": operator.eq, "!=": operator.ne, "<=": operator.le, ">=": operator.ge, "<": operator.lt, ">": operator.gt}[case["op"]](a, b)
    sep = " " if case["blanks"] else ""
    text = f"{case['left']}{sep}{case['op']}{sep}{case['right']}"
    try:
        r = _solve(text)
    except Exception as e:
        return v.fail("valid-raised", f"solve({text!r}) raised {e!r}")
    got = getattr(r, "value", r)
    if bool(got) != want or not isinstance(got, (bool, np.bool_)):
        return v.fail("value", f"solve({text!r}) = {got!r}, expected {want!r} ({a!r} {case['op']} {b!r})")
    v.nt(True)
    v.label("near_equal_comparison", "equal_operands" if a == b else "operands_differ_by_rounding")


def check(case):
    v = Verdict()
    {"valid": check_valid, "ill": check_ill, "flat": check_flat, "near": check_near}[case["kind"]](case, v)
    return v
