"""C10 — a molecular formula is decomposed into exactly its atoms."""
import collections

import numpy as np
from hypothesis import strategies as st

from ..core import Verdict, close
from ..refs import units_ref as R

ID = "C10"
RULE = (
    'Formula ASTs: species = element symbol (118) with optional {A}, {A+-q}, {+-q}, {+-} suffix (A from that '
    "element's isotope table), D, T, nucleons [p] [n] [e]; counts 1..30; groups with multipliers nested <= 3 (4 "
    "thorough); items joined by juxtaposition, one blank or explicit ' + '; explicit ' * n'; both isotope modes; "
    'dict construction, Substance + Substance and Substance * n. Oracle: independent expansion to a Counter keyed '
    'by (element, isotope, charge); per-species Z, N=A-Z, e=Z+q, mass=M_A+q*m_e (natural: abundance-weighted '
    "mean; most-abundant: arg-max abundance) read from PT_DATA and the unit tables; 'sum' row = count-weighted "
    'sums. Non-trivial: a group with multiplier followed by another item, or nesting >= 2, or a charged/isotopic '
    'species with count > 1. Round 4: augmented += and *=, a zero multiple inside a sum, in-place add() on '
    'results. Later rounds: two-digit charge numbers; Element operands of a species new to the sum, in the other '
    'isotope mode; operands re-read after the sum. Round 8: charged D and T; the same species on both sides of a '
    'sum in another order. Distinct = distinct case JSON.'
)
ASSUMPTIONS = [
    "elements whose isotopes all have zero natural abundance are used only with an explicit isotope",
    "D and T carry no suffix (none is documented)",
    "relative tolerance 1e-9 on masses (Quantity arithmetic through Da / [m_e] factors)",
]
NT_FLOOR = 0.3
# coverage-guided complement (sv/fuzz.py): strategy -> number of cases
FUZZ = {"thorough": {"formula": 30000}}

from scinumtools.materials.periodic_table import PT_DATA  # the published isotope table is the specification

ELEMENTS = list(PT_DATA.keys())
NATURAL_OK = [el for el, (Z, A) in PT_DATA.items() if sum(v[1] for v in A.values()) > 0]
# most-abundant mode needs a unique maximum
ABUNDANT_OK = [el for el in NATURAL_OK
               if sorted((v[1] for v in PT_DATA[el][1].values()), reverse=True)[0] >
               (sorted((v[1] for v in PT_DATA[el][1].values()), reverse=True) + [0])[1]]
COMMON = ["H", "C", "N", "O", "Na", "Cl", "Ca", "S", "Fe", "Mg", "Si", "Al", "K", "P", "B", "Mo", "Ru", "Cu", "Zn", "U"]
ME_DA = R.UNITS["[m_e]"].mag / R.UNITS["Da"].mag
NUCLEON = {"[p]": (1, 0, 0, R.UNITS["[m_p]"].mag / R.UNITS["Da"].mag),
           "[n]": (0, 1, 0, R.UNITS["[m_n]"].mag / R.UNITS["Da"].mag),
           "[e]": (0, 0, 1, ME_DA)}


@st.composite
def species(draw):
    kind = draw(st.sampled_from(["el"] * 8 + ["DT", "nucleon"]))
    n = draw(st.one_of(st.just(1), st.just(1), st.integers(2, 6), st.integers(1, 30)))
    mul = draw(st.integers(0, 7)) == 0
    if mul and draw(st.booleans()):
        # 'H2 * 3': a counted species with an explicit factor on top; n keeps the total, c the written count
        c = draw(st.integers(2, 4))
        f = draw(st.integers(1, 5))
        n, mul = c * f, [c, f]
    if kind == "DT":
        # D and T are H{2} and H{3}; a suffix that holds a charge only (D{-}, T{+1}) is the charge of that isotope
        q = draw(st.sampled_from([None, None, -1, 1]))
        return {"t": "s", "el": draw(st.sampled_from(["D", "T"])), "A": None, "q": q,
                "qs": "" if q is None else draw(st.sampled_from(["num", "sign"])), "n": n, "mul": mul}
    if kind == "nucleon":
        return {"t": "s", "el": draw(st.sampled_from(["[p]", "[n]", "[e]"])), "A": None, "q": None, "qs": "", "n": n, "mul": mul}
    el = draw(st.one_of(st.sampled_from(COMMON), st.sampled_from(ELEMENTS)))
    form = draw(st.sampled_from(["plain", "plain", "plain", "iso", "isoq", "q", "sign"]))
    A = q = None
    qs = ""
    if form in ("iso", "isoq") or el not in ABUNDANT_OK:
        A = int(draw(st.sampled_from(sorted(PT_DATA[el][1].keys(), key=int))))
    if form in ("isoq", "q"):
        q = draw(st.sampled_from([-3, -2, -1, 1, 2, 3]))
        if ELEMENTS.index(el) >= 25 and draw(st.integers(0, 3)) == 0:
            q = draw(st.sampled_from([10, 12, -10, 15, 21]))        # charge numbers of two digits (highly stripped ions)
        qs = "num"
    elif form == "sign":
        q = draw(st.sampled_from([-1, 1]))
        qs = "sign"
    return {"t": "s", "el": el, "A": A, "q": q, "qs": qs, "n": n, "mul": mul}


def items(depth):
    leaf = species()
    if depth == 0:
        return st.lists(st.tuples(leaf, st.sampled_from(["", "", " ", " + "])), min_size=1, max_size=4)

    @st.composite
    def group(draw):
        inner = draw(items(depth - 1))
        return {"t": "g", "items": [[i, j] for i, j in inner], "n": draw(st.one_of(st.just(1), st.integers(2, 5), st.integers(2, 30))),
                "mul": draw(st.integers(0, 7)) == 0}
    return st.lists(st.tuples(st.one_of(leaf, leaf, group()), st.sampled_from(["", "", " ", " + "])), min_size=1, max_size=4)


@st.composite
def formula_case(draw, depth):
    its = draw(items(draw(st.integers(0, depth))))
    return {"kind": "formula", "items": [[i, j] for i, j in its], "natural": draw(st.booleans())}


@st.composite
def dict_case(draw):
    sp = draw(st.lists(species(), min_size=1, max_size=5))
    return {"kind": "dict", "species": sp, "natural": draw(st.booleans())}


@st.composite
def arith_case(draw):
    a = draw(items(1))
    b = draw(items(1))
    if draw(st.integers(0, 3)) == 0:
        # the same set of species on both sides, written in another order and with other counts (HCOOH + CH3OH)
        els = draw(st.lists(st.sampled_from(COMMON), min_size=2, max_size=4, unique=True))
        mk = lambda el, n: {"t": "s", "el": el, "A": None, "q": None, "qs": "", "n": n, "mul": False}
        a = [[mk(el, draw(st.integers(1, 4))), ""] for el in els]
        b = [[mk(el, draw(st.integers(1, 6))), ""] for el in draw(st.permutations(els))]
    return {"kind": "arith", "a": [[i, j] for i, j in a], "b": [[i, j] for i, j in b], "k": draw(st.sampled_from([1, 1, 2, 3, 5, 7])),
            "natural": draw(st.booleans())}


@st.composite
def mutate_case(draw):
    a = draw(items(draw(st.integers(0, 1))))
    if draw(st.booleans()):
        a = a[:1]
        a[0][0]["n"], a[0][0]["mul"] = 1, False
    pool = [it for it, _ in a if it["t"] == "s"]
    sp = dict(draw(st.sampled_from(pool))) if pool and draw(st.booleans()) else draw(species())
    sp["n"], sp["mul"] = 1, False
    return {"kind": "mutate", "a": [[i, j] for i, j in a], "sp": sp, "k": draw(st.integers(1, 5)), "natural": draw(st.booleans())}


def strategies(tier):
    d = 3 if tier == "quick" else 4
    return {"formula": (formula_case(d), 2500, 60000), "dict": (dict_case(), 400, 8000), "arith": (arith_case(), 600, 12000),
            "mutate": (mutate_case(), 600, 12000)}


# --------------------------------------------------------------------------- rendering and expansion

def sp_text(s):
    suf = ""
    if s["A"] is not None or s["q"] is not None:
        suf = "{"
        if s["A"] is not None:
            suf += str(s["A"])
        if s["q"] is not None:
            if s["qs"] == "sign":
                suf += "+" if s["q"] > 0 else "-"
            else:
                suf += f"{s['q']:+d}"
        suf += "}"
    return s["el"] + suf


def render(its):
    out = []
    for idx, (it, join) in enumerate(its):
        if it["t"] == "s":
            txt = sp_text(it)
        else:
            txt = "(" + render(it["items"]) + ")"
        if isinstance(it["mul"], list):
            txt += f"{it['mul'][0]} * {it['mul'][1]}"
        elif it["n"] != 1 or it["mul"]:
            txt += f" * {it['n']}" if it["mul"] else str(it["n"])
        out.append(txt)
        if idx < len(its) - 1:
            j = join
            nxt = its[idx + 1][0]
            if it["mul"] and j != " + ":
                j = " + "          # after an explicit ' * n' only the explicit ' + ' is a documented continuation
            out.append(j)
    return "".join(out)


def expand(its, mult=1, acc=None):
    acc = collections.Counter() if acc is None else acc
    for it, _join in its:
        if it["t"] == "s":
            acc[(it["el"], it["A"], it["q"] or 0)] += mult * it["n"]
        else:
            expand(it["items"], mult * it["n"], acc)
    return acc


def depth_of(its):
    return max([0] + [1 + depth_of(it["items"]) for it, _ in its if it["t"] == "g"])


def species_data(el, A, q, natural):
    """-> (element, isotope, charge, mass, Z, N, e) by the isotope table"""
    if el in NUCLEON:
        Z, N, e, m = NUCLEON[el]
        return el, 0, 0, m, Z, N, e
    if el in ("D", "T"):
        el, A = "H", (2 if el == "D" else 3)
    Z, iso = PT_DATA[el]
    if A is not None:
        M = iso[str(A)][0]
        return el, A, q, M + q * ME_DA, Z, A - Z, Z + q
    if natural:
        w = np.array([v[1] for v in iso.values()], dtype=float)
        As = np.array([int(a) for a in iso.keys()], dtype=float)
        Ms = np.array([v[0] for v in iso.values()], dtype=float)
        am = float(np.sum(As * w) / np.sum(w))
        return el, am, q, float(np.sum(Ms * w) / np.sum(w)) + q * ME_DA, Z, am - Z, Z + q
    a = max(iso.items(), key=lambda kv: kv[1][1])[0]
    A = int(a)
    return el, A, q, iso[a][0] + q * ME_DA, Z, A - Z, Z + q


def expected(counter, natural):
    """aggregate by (element, isotope value, charge) -> dict key -> (count, mass, Z, N, e)"""
    out = {}
    for (el, A, q), n in counter.items():
        e_, iso, ch, m, Z, N, e = species_data(el, A, q, natural)
        key = (e_, round(float(iso), 6), ch)
        if key in out:
            out[key] = (out[key][0] + n,) + out[key][1:]
        else:
            out[key] = (n, m, Z, N, e)
    return out


def observed(sub):
    tab = sub.data_components(quantity=False)
    out = {}
    if tab is None:
        return out
    for expr, row in tab.items():
        key = (row.element, round(float(row.isotope), 6), int(row.ionisation))
        rec = (float(row.count), float(row.mass), float(row.Z), float(row.N), float(row.e))
        if key in out:
            old = out[key]
            for a, b in zip(old[1:], rec[1:]):
                if not close(a, b, 1e-9):
                    return {"__inconsistent__": (expr, old, rec)}
            out[key] = (old[0] + rec[0],) + old[1:]
        else:
            out[key] = rec
    return out


def compare(v, text, sub, counter, natural):
    exp = expected(counter, natural)
    got = observed(sub)
    if "__inconsistent__" in got:
        return v.fail("species-data", f"{text}: two components of one species disagree: {got['__inconsistent__']}")
    if set(exp) != set(got):
        return v.fail("species-set", f"{text}: species {sorted(got)} != expected {sorted(exp)}")
    for k in exp:
        n, m, Z, N, e = exp[k]
        gn, gm, gZ, gN, ge = got[k]
        if not close(gn, n, 1e-12):
            return v.fail("count", f"{text}: {k} counted {gn}, expansion gives {n}")
        if not (close(gm, m, 1e-9) and close(gZ, Z, 1e-12) and close(gN, N, 1e-9, 1e-12) and close(ge, e, 1e-12)):
            return v.fail("species-data", f"{text}: {k} reports mass/Z/N/e = {(gm, gZ, gN, ge)}, table gives {(m, Z, N, e)}")
    tot = sub.data_composite(quantity=False)["sum"]
    want = [sum(n * x[i] for n, *x in exp.values()) for i in range(4)]
    have = [float(tot.mass), float(tot.Z), float(tot.N), float(tot.e)]
    for name, a, b in zip(("mass", "Z", "N", "e"), have, want):
        if not close(a, b, 1e-9, 1e-9):
            return v.fail("totals", f"{text}: total {name} = {a!r}, count-weighted sum = {b!r}")
    return None


def check(case):
    from scinumtools.materials import Substance
    v = Verdict()
    nat = case["natural"]
    if case["kind"] == "formula":
        text = render(case["items"])
        counter = expand(case["items"])
        try:
            sub = Substance(text, natural=nat)
        except Exception as e:
            v.fail("formula-rejected", f"Substance({text!r}, natural={nat}) raised {e!r}")
            return v
        compare(v, f"Substance({text!r}, natural={nat})", sub, counter, nat)
        its = case["items"]
        grp_then = any(it["t"] == "g" and it["n"] > 1 and i < len(its) - 1 for i, (it, _j) in enumerate(its))

        def charged_multi(xs):
            return any((it["t"] == "s" and it["n"] > 1 and (it["A"] is not None or it["q"] is not None)) or
                       (it["t"] == "g" and charged_multi(it["items"])) for it, _ in xs)
        v.nt(grp_then or depth_of(its) >= 2 or charged_multi(its))
        v.label("formula", "natural" if nat else "abundant", f"depth{min(depth_of(its), 3)}")
        if grp_then:
            v.label("group_then_item")
        if " + " in text:
            v.label("explicit_plus")
        if " * " in text:
            v.label("explicit_mul")
        v.info = {"text": text}
    elif case["kind"] == "dict":
        d = collections.OrderedDict()
        counter = collections.Counter()
        for s in case["species"]:
            d[sp_text(s)] = d.get(sp_text(s), 0) + s["n"]
        for s in case["species"]:
            pass
        seen = set()
        for s in case["species"]:
            if sp_text(s) in seen:
                continue
            seen.add(sp_text(s))
            counter[(s["el"], s["A"], s["q"] or 0)] += d[sp_text(s)]
        try:
            sub = Substance(dict(d), natural=nat)
        except Exception as e:
            v.fail("formula-rejected", f"Substance({dict(d)!r}) raised {e!r}")
            return v
        compare(v, f"Substance({dict(d)!r}, natural={nat})", sub, counter, nat)
        v.nt(len(d) >= 2)
        v.label("dict")
    elif case["kind"] == "mutate":
        ta, k, sp = render(case["a"]), case["k"], case["sp"]
        ca = expand(case["a"])
        spt = sp_text(sp)
        try:
            s1 = Substance(ta, natural=nat)
            if compare(v, f"Substance({ta!r})", s1, ca, nat) is None and not v.violations:
                s1.add(spt, k)
                c1 = ca + collections.Counter({(sp["el"], sp["A"], sp["q"] or 0): k})
                compare(v, f"Substance({ta!r}).add({spt!r},{k})", s1, c1, nat)
            if not v.violations:
                compare(v, f"Substance({ta!r}) parsed again after another object's add({spt!r},{k})", Substance(ta, natural=nat), ca, nat)
            if not v.violations:
                compare(v, f"Substance({spt!r}) parsed after Substance({ta!r}).add({spt!r},{k})", Substance(spt, natural=nat),
                        collections.Counter({(sp["el"], sp["A"], sp["q"] or 0): 1}), nat)
        except Exception as e:
            v.fail("formula-rejected", f"Substance({ta!r}) / add({spt!r},{k}) raised {e!r}")
            return v
        v.nt(True)
        v.label("mutate")
    else:
        ta, tb, k = render(case["a"]), render(case["b"]), case["k"]
        ca, cb = expand(case["a"]), expand(case["b"])
        try:
            r = Substance(ta, natural=nat) + Substance(tb, natural=nat)
            r2 = Substance(ta, natural=nat) * k
            # adding a single Element (possibly of a species that is already present)
            first = [it for it, _ in case["a"] if it["t"] == "s"]
            if first:
                from scinumtools.materials import Element
                sp0 = first[0]
                r3 = Substance(ta, natural=nat) + Element(sp_text(sp0), k, natural=nat)
                c3 = ca + collections.Counter({(sp0["el"], sp0["A"], sp0["q"] or 0): k})
                if compare(v, f"Substance({ta!r}) + Element({sp_text(sp0)!r},{k})", r3, c3, nat) is not None or v.violations:
                    return v
                # an Element of a species that is NEW to the substance (taken from b), given in the other isotope mode:
                # the sum is a substance of its own mode, and extending it does not reach the element that was added
                newsp = [it for it, _ in case["b"] if it["t"] == "s" and (it["el"], it["A"], it["q"] or 0) not in ca]
                if newsp:
                    spn = newsp[0]
                    el_ = Element(sp_text(spn), k, natural=not nat)
                    r4 = Substance(ta, natural=nat) + el_
                    c4 = ca + collections.Counter({(spn["el"], spn["A"], spn["q"] or 0): k})
                    if compare(v, f"Substance({ta!r}, natural={nat}) + Element({sp_text(spn)!r},{k}, natural={not nat})", r4, c4, nat) \
                            is not None or v.violations:
                        return v
                    r4.add(sp_text(spn), 2)
                    r5 = Substance(ta, natural=nat) + el_
                    if compare(v, f"e = Element({sp_text(spn)!r},{k}); w = Substance({ta!r}) + e; w.add(...); Substance({ta!r}) + e",
                               r5, c4, nat) is not None or v.violations:
                        return v
                    v.label("element_new_species_other_mode")
        except Exception as e:
            v.fail("formula-rejected", f"Substance({ta!r}) + Substance({tb!r}) / * {k} raised {e!r}")
            return v
        if compare(v, f"Substance({ta!r}) + Substance({tb!r})", r, ca + cb, nat) is None and not v.violations:
            ck = collections.Counter({key: n * k for key, n in ca.items()})
            compare(v, f"Substance({ta!r}) * {k}", r2, ck, nat)
        if not v.violations:
            # augmented assignments are the same operations; a zero multiple contributes nothing to a sum
            try:
                sa_ = Substance(ta, natural=nat)
                sa_ += Substance(tb, natural=nat)
                if compare(v, f"s = Substance({ta!r}); s += Substance({tb!r}); s", sa_, ca + cb, nat) is None and not v.violations:
                    sm_ = Substance(ta, natural=nat)
                    sm_ *= k
                    compare(v, f"s = Substance({ta!r}); s *= {k}; s", sm_, collections.Counter({key: n * k for key, n in ca.items()}), nat)
                if not v.violations:
                    z = Substance(ta, natural=nat) + Substance(tb, natural=nat) * 0
                    cz = collections.Counter({key: 0 for key in cb})
                    cz.update(ca)
                    compare(v, f"Substance({ta!r}) + Substance({tb!r}) * 0", z, cz, nat)
            except Exception as e:
                v.fail("formula-rejected", f"augmented += / *= or a zero multiple of Substance({ta!r}), Substance({tb!r}) raised {e!r}")
                return v
        if not v.violations and first:
            # a product / sum is a new substance: extending it in place leaves the operand as it was, and vice versa
            try:
                s0 = Substance(ta, natural=nat)
                pr = s0 * k
                pr.add(sp_text(sp0), 2)
                compare(v, f"s = Substance({ta!r}); p = s * {k}; p.add({sp_text(sp0)!r}, 2); s", s0, ca, nat)
                if not v.violations:
                    s1 = Substance(ta, natural=nat)
                    sm = s1 + Substance(tb, natural=nat)
                    s1.add(sp_text(sp0), 3)
                    compare(v, f"s = Substance({ta!r}); r = s + Substance({tb!r}); s.add({sp_text(sp0)!r}, 3); r", sm, ca + cb, nat)
            except Exception as e:
                v.fail("formula-rejected", f"in-place add() after * / + on Substance({ta!r}) raised {e!r}")
                return v
            v.label("result_then_add")
        v.nt(True)
        v.label("arith")
    return v
