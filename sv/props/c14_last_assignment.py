"""C14 — the last assignment wins, in the units and type of the definition."""
import itertools

from hypothesis import strategies as st

from ..core import Verdict, close
from ..refs import dip_ref as D
from ..refs import units_ref as R

ID = "C14"
RULE = (
    'A target node (bool / int / float of any width / str; scalar, or float array as a separate class; definition '
    'or declaration; with or without unit) placed at a random depth of a small tree of unrelated nodes, followed '
    'by 1-5 modifications: typed or untyped, unit absent / same / other prefix or unit of the same dimension / a '
    'custom $unit, values incl. 0, negatives, false, none; addressed by dotted path, by re-entering the groups '
    'with indentation, or mixed; unrelated definitions interleaved. Model: type and unit of the first occurrence, '
    'value = last assigned value * F(unit_mod)/F(unit_def) with F from the independent unit reference (custom '
    'units = value * F(their unit)); exactly one entry per path, in first-appearance order. Failing programs '
    '(another data type, a literal the type cannot hold, a unit of another dimension, !constant then modify, a '
    'declaration never assigned) must raise. Non-trivial: >=2 modifications with a unit change, or a falsy final '
    'value (0, false, none). Round 4: values assigned by reference to a helper node (also 0 / false), integers '
    'beyond 2**53, an earlier parse that defined the custom unit differently. Later rounds: definitions through a '
    'sliced reference followed by plain re-assignments; declared constants. Round 7: assigned values given by '
    'expressions in typed and untyped modifications, zero and false results included. Round 8: units assigned to '
    'unit-less nodes (% converts, cm is refused); !constant below a modification; exact comparison of unconverted '
    'float literals; units of another dimension written with the same symbols; integer arrays; the empty string; '
    'a refusal has to come from parse(), not from data(). Round 9: strings (the empty one included) assigned by '
    'reference; values returned by registered functions, False and 0 included (strategy function_value). Round 10: an unrelated parse (other definition of the custom unit) between the two stages; numbers WITH units returned by functions, custom units on either side. Distinct '
    '= distinct rendered text.'
)
ASSUMPTIONS = [
    "integer nodes only receive values whose conversion into the definition unit is an exact integer",
    "empty strings are not assigned (the property lists zero, negative, false and none)",
    "numeric comparison with relative tolerance 1e-9",
]
NT_FLOOR = 0.3
_uid = itertools.count()

DIMS = {
    "length": [("m", 1.0), ("cm", 1e-2), ("km", 1e3), ("mm", 1e-3)],
    "time": [("s", 1.0), ("min", 60.0), ("ms", 1e-3), ("h", 3600.0), ("us", 1e-6), ("ns", 1e-9)],
    "mass": [("kg", 1e3), ("g", 1.0), ("t", 1e6)],
    "energy": [("J", None), ("erg", None), ("kg*m2/s2", None), ("kJ", None), ("eV", None), ("keV", None)],
    "speed": [("m/s", None), ("km/h", None), ("cm/s", None), ("m*s-1", None)],
}
# a unit of ANOTHER dimension that is written with the same symbols (m/s against m*s)
LOOKALIKE = {"speed": "m*s", "energy": "kg*m2/s", "length": "m2", "time": "s2"}      # (not the reciprocal: m-1 converts into m by inversion)
for _d, _lst in DIMS.items():
    DIMS[_d] = [(u, R.factor_of_expression_text(u)) for u, _ in _lst]
CUSTOM = {"length": ("len", "2", "cm"), "time": ("tick", "5", "ms"), "mass": ("lump", "250", "g"), "energy": ("quant", "3", "kJ"),
          "speed": ("pace", "4", "km/h")}
FLOAT_VALUES = ["0", "0.0", "-2.5", "3", "7.25", "1e3", "-1E-2", "100", "0.5", "12345.678", "-0", "6.02e23",
                "0.30000000000000004", "0.3333333333333333", "2.7182818284590451"]      # need 16-17 significant digits
INT_VALUES = ["0", "-7", "3", "100", "-200", "5000", "12", "1"]
STR_VALUES = ["x", "'y z'", '"dq w"', "bare2", "'it\\'s'", "0", "false", "none_", '""', "''"]


@st.composite
def target_case(draw):
    kind = draw(st.sampled_from(["float", "float", "int", "bool", "str", "farray"]))
    depth = draw(st.integers(0, 2))
    groups = [f"g{i}{draw(D.seg())}" for i in range(depth)]
    tname = "x" + draw(D.seg())
    dim = draw(st.sampled_from(sorted(DIMS))) if kind in ("float", "int", "farray") and draw(st.integers(0, 3)) else None
    dunit = draw(st.sampled_from(DIMS[dim]))[0] if dim else None
    tkw = {"float": draw(st.sampled_from(["float", "float32", "float64", "float128"])),
           "int": draw(st.sampled_from(["int", "int16", "int32", "int64", "uint32", "uint64"])),
           "bool": "bool", "str": "str", "farray": "float"}[kind]
    declared = draw(st.integers(0, 4)) == 0
    use_custom = dim is not None and kind != "int" and draw(st.integers(0, 3)) == 0

    def value(k):
        if k == "float":
            return draw(st.sampled_from(FLOAT_VALUES))
        if k == "int":
            if dim is None and tkw in ("int64", "uint64") and draw(st.integers(0, 4)) == 0:
                # beyond 2**53: not representable as a double, the node must still hold exactly what was written
                big = ["9007199254740993", "1234567890123456789", "4611686018427387905"]
                return draw(st.sampled_from(big + (["-1234567890123456789", "-9007199254740993"] if tkw == "int64" else
                                                   ["18446744073709551615"])))
            return draw(st.sampled_from(INT_VALUES if not tkw.startswith("u") else [v for v in INT_VALUES if not v.startswith("-")]))
        if k == "bool":
            return draw(st.sampled_from(["true", "false", "false"]))
        if k == "str":
            return draw(st.sampled_from(STR_VALUES))
        n = 3
        return "[" + ",".join(draw(st.sampled_from(["0", "1.5", "-2", "10", "0.25"])) for _ in range(n)) + "]"

    first = None if declared else value(kind)
    nmods = draw(st.integers(1, 5))
    mods = []
    for i in range(nmods):
        val = value(kind)
        if draw(st.integers(0, 6)) == 0:
            val = "none"
        unit = None
        if dim is None and kind == "float" and val != "none" and draw(st.integers(0, 5)) == 0:
            unit = "%"           # a dimensionless unit assigned to a node without unit: converted into a plain number
        if dim and val != "none":
            choice = draw(st.sampled_from(["absent", "same", "other", "other", "custom" if use_custom else "other"]))
            if choice == "same":
                unit = dunit
            elif choice == "other":
                unit = draw(st.sampled_from(DIMS[dim]))[0]
            elif choice == "custom":
                unit = f"[{CUSTOM[dim][0]}]"
            if kind == "int" and unit is not None:
                # keep the converted value an exact integer
                f = R.factor_of_expression_text(unit) / R.factor_of_expression_text(dunit)
                if f < 1 and abs(round(1 / f) - 1 / f) < 1e-6 * (1 / f):
                    val = str(int(val) * int(round(1 / f)))
                elif f < 1 or abs(round(f) - f) > 1e-6 * f:
                    unit = None
        mods.append({"val": val, "unit": unit, "typed": draw(st.integers(0, 2)) == 0,
                     # the assigned value may be given by reference to a helper node that holds it (also 0 / false)
                     "via_ref": kind in ("float", "int", "bool", "str") and val != "none" and draw(st.integers(0, 3)) == 0,
                     "addr": draw(st.sampled_from(["dotted", "indent", "mixed"])),
                     "noise": draw(st.integers(0, 2)) == 0,
                     # ... or by an expression ("A u - K u") u whose result is the value (zero included); K or None
                     "by_expr": draw(st.sampled_from(["1", "2.5", "100"] if kind == "float" else ["1", "7", "100"]))
                     if kind in ("float", "int", "bool") and val != "none" and draw(st.integers(0, 3)) == 0 else None})
        # ... or by a registered function that returns it (False and 0 included); unit-less nodes only
        mods[-1]["by_fn"] = bool(kind in ("bool", "int", "float") and dim is None and val != "none" and not mods[-1]["via_ref"]
                                 and not mods[-1]["by_expr"] and unit is None and draw(st.integers(0, 4)) == 0)
        if kind == "int" and mods[-1]["by_fn"] and abs(int(val)) > 2 ** 52:
            mods[-1]["by_fn"] = False
        if mods[-1]["by_expr"] and (mods[-1]["via_ref"] or unit == "%" or (kind == "int" and abs(int(mods[-1]["val"])) > 2 ** 52)):
            mods[-1]["by_expr"] = None
    fail = draw(st.sampled_from([None] * 6 + ["type", "literal", "dimension", "constant", "undeclared"]))
    if fail == "dimension" and not dim and kind not in ("float", "int"):
        fail = "type"
    if fail == "constant" and draw(st.booleans()):
        # a constant that was only declared: its single later assignment is refused like any other
        declared, first, mods = True, None, mods[:1]
        nmods = 1
    if fail is None and kind == "int" and dim is None and tkw in ("int64", "uint64") and draw(st.booleans()):
        # the last assignment is an integer a double cannot hold
        mods[-1]["by_expr"] = None
        mods[-1]["val"] = draw(st.sampled_from(["9007199254740993", "1234567890123456789", "4611686018427387905"]))
        mods[-1]["unit"] = None
    fail_at = draw(st.integers(0, nmods - 1))
    const_after_mod = False
    if fail == "constant" and nmods >= 2 and not declared and draw(st.booleans()):
        # '!constant' written below a MODIFICATION (another node was defined in between): it marks the modified node
        const_after_mod = True
        fail_at = max(1, fail_at)
    if fail == "undeclared":
        declared = True
        first = None
    if kind in ("farray", "str") and fail in ("literal",):
        fail = "type"
    return {"kind": kind, "type": tkw, "groups": groups, "name": tname, "dim": dim, "unit": dunit, "declared": declared,
            "first": first, "mods": mods, "custom": use_custom, "fail": fail,
            "first_by_fn": kind in ("bool", "int", "float") and dim is None and not declared and first not in (None, "none")
                           and not (kind == "int" and abs(int(first)) > 2 ** 52) and draw(st.integers(0, 2)) == 0,
            "fail_at": fail_at, "const_after_mod": const_after_mod, "lookalike": draw(st.booleans()), "indent": draw(st.integers(1, 3)),
            # two-stage parsing: the first `split` modifications are parsed with the definition, the rest on top of
            # the returned environment (DIP(env)); 0 = everything in one parse
            "split": draw(st.sampled_from([0, 0, 0, 1, 2])),
            # an earlier, unrelated parse in the same process that defined the custom unit of the same name differently
            "prelude": draw(st.sampled_from([None, "7", "0.5"])) if use_custom else None,
            # the definition's value may come from a SLICED reference to a helper array; later assignments are plain
            # (an ARRAY cannot hold an integer beyond 2**63-1 - numpy's C long - although a scalar node can: noticed, not
            # this property's business; the helper array is not used for such values)
            "first_by_slice": (not declared) and first != "none" and kind in ("float", "int", "farray") and fail is None
                              and not (kind == "int" and abs(int(first)) >= 2 ** 63) and draw(st.integers(0, 4)) == 0}


SAME_SYMBOLS = {"m/s": "m*s", "km/h": "km*h", "cm/s": "cm*s", "m*s-1": "m*s", "J": "J2", "kg*m2/s2": "kg*m2/s"}


@st.composite
def lookalike_case(draw):
    """a compound unit, then an assignment in a unit of another dimension that is written with the very same symbols
    (m/s against m*s): refused; the control assigns a proper unit of the dimension"""
    dim = draw(st.sampled_from(["speed", "speed", "energy"]))
    dunit = draw(st.sampled_from([u for u, _f in DIMS[dim] if u in SAME_SYMBOLS]))
    bad = draw(st.booleans())
    mod = {"val": "3", "unit": draw(st.sampled_from(DIMS[dim]))[0], "typed": draw(st.booleans()), "via_ref": False,
           "addr": "dotted", "noise": False, "by_expr": None}
    return {"kind": "float", "type": "float", "groups": [], "name": "x0", "dim": dim, "unit": dunit, "declared": draw(st.booleans()),
            "first": "1", "mods": [mod], "custom": False, "fail": "dimension" if bad else None, "fail_at": 0,
            "const_after_mod": False, "lookalike": True, "same_symbols": True, "indent": 2, "split": 0, "prelude": None,
            "first_by_slice": False}


@st.composite
def int_array_case(draw):
    """an integer ARRAY node re-assigned in a larger unit of its dimension (directly or by reference): it holds the exact
    whole numbers, also where the float factor is inexact (1 us = 1000.0000000000001 ns)"""
    small, big, factor = draw(st.sampled_from([("ns", "us", 1000), ("ns", "ms", 10 ** 6), ("mm", "m", 1000), ("mm", "cm", 10),
                                               ("g", "kg", 1000), ("us", "ms", 1000), ("s", "min", 60)]))
    first = draw(st.lists(st.integers(0, 9), min_size=3, max_size=3))
    new = draw(st.lists(st.sampled_from([0, 1, 2, 3, 5, 7, 12, 250]), min_size=3, max_size=3))
    return {"iarr": True, "small": small, "big": big, "factor": factor, "first": first, "new": new,
            "how": draw(st.sampled_from(["direct", "by_reference", "typed"])), "declared": draw(st.booleans())}


@st.composite
def function_value_case(draw):
    """a node whose value is what a registered function returns - at its definition, or as its only / last assignment;
    False, 0 and 0.0 are values like any other"""
    kind = draw(st.sampled_from(["bool", "bool", "int", "float"]))
    val = draw(st.sampled_from({"bool": [False, False, True], "int": [0, 0, 3, -7], "float": [0.0, 0.0, 2.5, -1.5]}[kind]))
    funit = None
    if kind == "float" and draw(st.booleans()):
        # the function returns a number WITH a unit (docs: functions may return DIP data types, the value is converted into
        # the unit of the node); either side may be a unit defined in the text
        funit = draw(st.sampled_from([["cm", "m"], ["m", "cm"], ["[flen]", "m"], ["m", "[flen]"], ["[flen]", "[flen]"], ["km", "[flen]"]]))
    return {"fnval": True, "type": kind, "value": val, "funit": funit,
            "how": draw(st.sampled_from(["definition", "definition", "declared_then_assigned", "reassigned_typed", "reassigned_untyped"]))}


@st.composite
def interlude_case(draw):
    """stage 1 defines a custom unit and a node and keeps the environment; an unrelated text defines the unit of the same
    name differently and uses both directions of the conversion; stage 2 (on top of the kept environment) assigns the
    node in the other unit: the kept environment carries its own definition"""
    return {"inter": True, "k1": draw(st.sampled_from([2.0, 0.5, 4.0, 10.0])), "k2": draw(st.sampled_from([4.0, 0.25, 8.0, 3.0])),
            "x": draw(st.sampled_from([12.0, -6.0, 0.0, 3.0, 250.0])), "dir": draw(st.sampled_from(["into_custom", "from_custom"])),
            "base": draw(st.sampled_from(["m", "cm"])), "repeat": draw(st.integers(1, 2))}


def strategies(tier):
    return {"interlude": (interlude_case(), 100, 1500), "target": (target_case(), 3000, 60000), "lookalike": (lookalike_case(), 150, 2500),
            "int_array": (int_array_case(), 150, 2500), "function_value": (function_value_case(), 120, 2000)}


# --------------------------------------------------------------------------- rendering and model

def render(case):
    return "\n".join(x for x in render_stages(case) if x is not None and x != "")


def render_stages(case):
    """-> [stage-1 text, stage-2 text or None]"""
    w = case["indent"]
    marks = []
    lines = []
    if case["custom"]:
        n, v, u = CUSTOM[case["dim"]]
        lines.append(f"$unit {n} = {v} {u}")
    lines.append("before int = 1")
    for i, g in enumerate(case["groups"]):
        lines.append(" " * (w * i) + g)
    d = len(case["groups"])
    dimtxt = "[3]" if case["kind"] == "farray" else ""
    head = " " * (w * d) + f"{case['name']} {case['type']}{dimtxt}"
    if case["declared"]:
        lines.append(head + (f" {case['unit']}" if case["unit"] else ""))
    elif case.get("first_by_slice"):
        u_ = f" {case['unit']}" if case["unit"] else ""
        if case["kind"] == "farray":
            inner = case["first"].strip()[1:-1]
            lines.insert(1 if not case["custom"] else 2, f"hsrc float[5] = [9,{inner},8]{u_}")
            lines.append(head + " = {?hsrc}[1:4]")
        else:
            lines.insert(1 if not case["custom"] else 2, f"hsrc {case['type']}[3] = [9,{case['first']},8]{u_}")
            lines.append(head + " = {?hsrc}[1]")
    elif case.get("first_by_fn"):
        lines.append(head + " = (fnfirst)")         # the definition's value is what a registered function returns
    else:
        lines.append(head + f" = {case['first']}" + (f" {case['unit']}" if case["unit"] else ""))
    cam = case.get("const_after_mod")
    if case["fail"] == "constant" and not cam:
        lines.append(" " * (w * (d + 1)) + "!constant")
    if cam:
        lines.append("mid int = 7")
    path = ".".join(case["groups"] + [case["name"]])
    mods = list(case["mods"])
    if case["fail"] == "undeclared":
        mods = []
    for i, m in enumerate(mods):
        marks.append(len(lines))
        val, unit, typed = m["val"], m["unit"], m["typed"]
        tkw = case["type"] + dimtxt
        if case["fail"] is not None and i == case["fail_at"]:
            if case["fail"] == "type":
                typed = True
                tkw = {"float": "int", "int": "str", "bool": "float", "str": "int", "farray": "str[3]"}[case["kind"]]
                val = {"float": "3", "int": "abc", "bool": "1.5", "str": "4", "farray": '["a","b","c"]'}[case["kind"]]
                unit = None
            elif case["fail"] == "literal":
                typed = False
                val = {"float": "abc", "int": "2.5", "bool": "1", "str": None}[case["kind"]]
                unit = None
                if val is None:
                    continue
            elif case["fail"] == "dimension" and case["dim"] is None:
                unit = "cm"         # a node defined without unit is dimensionless: a length cannot be assigned to it
                if val == "none":
                    val = "3"
            elif case["fail"] == "dimension":
                other = [dd for dd in sorted(DIMS) if dd != case["dim"]][0]
                unit = DIMS[other][0][0]
                if case.get("lookalike") and case["dim"] in LOOKALIKE:
                    unit = LOOKALIKE[case["dim"]]
                if case.get("same_symbols"):
                    unit = SAME_SYMBOLS[case["unit"]]
                if val == "none":
                    val = "3"
        rhs = f"= {val}" + (f" {unit}" if unit else "")
        if m.get("by_expr") and not (case["fail"] is not None and i == case["fail_at"]):
            rhs = f'= ("{_expr(case["kind"], m)[0]}")' + (f" {unit}" if unit else "")
        if m.get("by_fn") and not (case["fail"] is not None and i == case["fail_at"]):
            rhs = f"= (fn{i})"
        if m.get("via_ref") and not (case["fail"] is not None and i == case["fail_at"]):
            lines.append(f"helper{i} {case['type']} = {val}" + (f" {unit}" if unit else ""))
            rhs = f"= {{?helper{i}}}"
        tpart = f" {tkw}" if typed else ""
        if cam and i == case["fail_at"] - 1:
            lines.append(f"{path}{tpart} {rhs}")
            lines.append(" " * w + "!constant")
        elif m["addr"] == "dotted" or not case["groups"]:
            lines.append(f"{path}{tpart} {rhs}")
        elif m["addr"] == "indent":
            for j, g in enumerate(case["groups"]):
                lines.append(" " * (w * j) + g)
            lines.append(" " * (w * d) + f"{case['name']}{tpart} {rhs}")
        else:
            lines.append(case["groups"][0])
            rest = ".".join(case["groups"][1:] + [case["name"]])
            lines.append(" " * w + f"{rest}{tpart} {rhs}")
        if m["noise"]:
            lines.append(f"noise{i} float = {i}.5 s")
    lines.append("after bool = true")
    k = case.get("split", 0)
    if k and k < len(marks):
        cut = marks[k]
        return ["\n".join(lines[:cut]), "\n".join(lines[cut:])]
    return ["\n".join(lines), None]


def _expr(kind, m):
    """-> (expression text without the unit of the modification, value it stands for)"""
    k, u = m["by_expr"], (f" {m['unit']}" if m["unit"] else "")
    if kind == "bool":
        return ("1 == 1" if m["val"] == "true" else "1 == 2"), m["val"] == "true"
    if kind == "int":
        a = int(m["val"]) + int(k)
        return f"{a}{u} - {k}{u}", a - int(k)
    a = float(repr(float(m["val"]) + float(k)))
    return f"{a!r}{u} - {k}{u}", a - float(k)


def _unit_factor(case, unit):
    if unit.startswith("["):
        n, v, u = CUSTOM[case["dim"]]
        return float(v) * R.factor_of_expression_text(u)
    return R.factor_of_expression_text(unit)


def _py(kind, text):
    if text == "none":
        return None
    if kind == "float":
        return float(text)
    if kind == "int":
        return int(text)
    if kind == "bool":
        return text == "true"
    if kind == "farray":
        import json
        return [float(x) for x in json.loads(text)]
    if text[:1] in "'\"":
        return text[1:-1].replace("\\'", "'").replace('\\"', '"')
    return text


def model(case):
    """-> final python value in the definition's unit"""
    kind = case["kind"]
    cur = None if case["declared"] else _py(kind, case["first"])
    for m in case["mods"]:
        v = _expr(kind, m)[1] if m.get("by_expr") else _py(kind, m["val"])
        if v is not None and m["unit"] == "%" and not case["unit"]:
            v = v * 0.01
        if v is not None and m["unit"] and case["unit"]:
            f = _unit_factor(case, m["unit"]) / _unit_factor(case, case["unit"])
            v = [x * f for x in v] if isinstance(v, list) else v * f
        cur = v
    return cur


def check(case):
    v = Verdict()
    try:
        _check(case, v)
    finally:
        if not R.tables_pristine():
            R.restore_tables()
    return v


def _check_int_array(case, v):
    from scinumtools.dip import DIP, Format
    lit = lambda xs: "[" + ",".join(str(x) for x in xs) + "]"
    L = [f"x0 int[3] {case['small']}" if case["declared"] else f"x0 int[3] = {lit(case['first'])} {case['small']}"]
    if case["how"] == "by_reference":
        L += [f"h int[3] = {lit(case['new'])} {case['big']}", "x0 = {?h}"]
    elif case["how"] == "typed":
        L.append(f"x0 int[3] = {lit(case['new'])} {case['big']}")
    else:
        L.append(f"x0 = {lit(case['new'])} {case['big']}")
    text = "\n".join(L)
    v.info = {"text": text}
    v.nt(True)
    v.label("int_array", case["how"])
    want = [x * case["factor"] for x in case["new"]]
    try:
        with DIP(name=f"c14_{next(_uid)}") as p:
            p.add_string(text)
            got = p.parse().data(Format.TUPLE)["x0"]
    except Exception as e:
        return v.fail("parse-raised", f"raised {e!r} for:\n{text}")
    if not (isinstance(got, tuple) and got[1] == case["small"]):
        return v.fail("unit", f"x0 = {got!r}, expected unit {case['small']!r}:\n{text}")
    vals = D.to_py(got[0])
    if not (isinstance(vals, list) and len(vals) == 3 and all(isinstance(x, int) and not isinstance(x, bool) for x in vals)
            and vals == want):
        return v.fail("value", f"x0 = {vals!r} {case['small']}, last assignment gives {want!r} {case['small']}:\n{text}")


def _check_function_value(case, v):
    from scinumtools.dip import DIP, Format
    t, val, how = case["type"], case["value"], case["how"]
    other = {"bool": "true", "int": "9", "float": "9.5"}[t]
    L = {"definition": [f"x0 {t} = (give)"], "declared_then_assigned": [f"x0 {t}", "x0 = (give)"],
         "reassigned_typed": [f"x0 {t} = {other}", f"x0 {t} = (give)"], "reassigned_untyped": [f"x0 {t} = {other}", "x0 = (give)"]}[how]
    funit = case.get("funit")
    ret = val
    if funit:
        from scinumtools.dip.datatypes import FloatType
        ufrom, uto = funit
        # the node states its unit where it is first written; the call '(give)' is followed by the unit as well
        L = [ln.replace(f"x0 {t} = {other}", f"x0 {t} = {other} {uto}").replace(f"x0 {t} = (give)", f"x0 {t} = (give) {uto}")
             .replace(f"x0 {t}", f"x0 {t} {uto}") if ln == f"x0 {t}" else
             ln.replace(f"x0 {t} = {other}", f"x0 {t} = {other} {uto}").replace(f"x0 {t} = (give)", f"x0 {t} = (give) {uto}")
             for ln in L]
        # (an assignment that states no unit is taken to be in the unit of the definition, so every call states one)
        L = [ln + f" {uto}" if ln == "x0 = (give)" else ln for ln in L]
        L = ["$unit flen = 2.5 m"] + L
        FU = {"cm": 0.01, "m": 1.0, "km": 1000.0, "[flen]": 2.5}
        ret = FloatType(val, ufrom)
        val = val * FU[ufrom] / FU[uto] if ufrom != uto else val
        v.label("function_returns_a_number_with_unit", "custom_unit" if "[flen]" in funit else "standard_units")
    text = "\n".join(L + ["after int = 1"])
    v.info = {"text": text + f"   [give() returns {ret!r}]"}
    v.nt(True)
    v.label("value_from_function", how, "falsy" if not val else "truthy")
    try:
        with DIP(name=f"c14_{next(_uid)}") as p:
            p.add_function("give", lambda data, _v=ret: _v)
            p.add_string(text)
            env = p.parse()
    except Exception as e:
        return v.fail("parse-raised", f"raised {e!r} for:\n{text}\n[give() returns {val!r}]")
    try:
        got = D.to_py(env.data(Format.TUPLE)["x0"])
    except Exception as e:
        return v.fail("unreadable", f"parse() returned an environment whose data() raises {e!r}:\n{text}\n[give() returns {val!r}]")
    if funit:
        if not isinstance(got, (tuple, list)) or got[1] != funit[1] or abs(got[0] - val) > 1e-9 * max(1.0, abs(val)):
            return v.fail("value", f"x0 = {got!r}, the function returns {ret!r}, which is {val!r} {funit[1]}:\n{text}")
        return
    if got != val or type(got) is not type(val):
        return v.fail("value", f"x0 = {got!r}, the function returns {val!r}:\n{text}")


def _check_interlude(case, v):
    from scinumtools.dip import DIP, Format
    k1, k2, x, b = case["k1"], case["k2"], case["x"], case["base"]
    fb = {"m": 1.0, "cm": 0.01}[b]
    if case["dir"] == "into_custom":
        s1 = f"$unit ilen = {k1} m\nw float = 1 [ilen]"
        s2 = f"w = {x} {b}"
        want = (x * fb / k1, "[ilen]")
    else:
        s1 = f"$unit ilen = {k1} m\nw float = 1 {b}"
        s2 = f"w = {x} [ilen]"
        want = (x * k1 / fb, b)
    other = f"$unit ilen = {k2} m\nd float = 1 [ilen]\nd = {x} {b}\ne float = 1 {b}\ne = {x} [ilen]"
    text = f"{s1}\n# ---- an unrelated parser in between ----\n{other}\n# ---- on top of the first environment ----\n{s2}"
    v.nt(True)
    v.label("unrelated_parse_between_the_stages", "interlude_" + case["dir"])
    v.info = {"text": text}
    try:
        with DIP(name=f"c14_{next(_uid)}") as p:
            p.add_string(s1)
            env1 = p.parse()
        for _ in range(case["repeat"]):
            with DIP(name=f"c14_{next(_uid)}") as p:
                p.add_string(other)
                p.parse().data(Format.TUPLE)
        with DIP(env1, name=f"c14_{next(_uid)}") as p:
            p.add_string(s2)
            got = p.parse().data(Format.TUPLE)["w"]
    except Exception as e:
        return v.fail("parse-raised", f"raised {e!r} for:\n{text}")
    if got[1] != want[1] or abs(got[0] - want[0]) > 1e-9 * max(1.0, abs(want[0])):
        return v.fail("value", f"w = {tuple(got)!r}, expected {want!r} ([ilen] = {k1} m in the environment the assignment is "
                               f"parsed on; the unrelated text defined it as {k2} m):\n{text}")


def _check(case, v):
    if case.get("inter"):
        return _check_interlude(case, v)
    if case.get("iarr"):
        return _check_int_array(case, v)
    if case.get("fnval"):
        return _check_function_value(case, v)
    from scinumtools.dip import DIP, Format
    stage1, stage2 = render_stages(case)
    text = stage1 if stage2 is None else stage1 + "\n# ---- parsed on top of the returned environment ----\n" + stage2
    path = ".".join(case["groups"] + [case["name"]])
    if case.get("prelude"):
        n_, _v, u_ = CUSTOM[case["dim"]]
        # (both directions of the conversion are used by the other text)
        pre = f"$unit {n_} = {case['prelude']} {u_}\nw float = 1 {u_}\nw = 3 [{n_}]\nz float = 1 [{n_}]\nz = 5 {u_}"
        text = f"# ---- an earlier parse in the same process ----\n{pre}\n# ---- this parse ----\n" + text
        try:
            with DIP(name=f"c14_{next(_uid)}") as p0:
                p0.add_string(pre)
                p0.parse().data()
        except Exception as e:
            return v.fail("parse-raised", f"the earlier parse raised {e!r}:\n{pre}")
        v.label("earlier_parse_defined_the_unit_differently")
    fns = {f"fn{i}": _py(case["kind"], m["val"]) for i, m in enumerate(case["mods"]) if m.get("by_fn")}
    if case.get("first_by_fn") and not case.get("first_by_slice"):
        fns["fnfirst"] = _py(case["kind"], case["first"])
        v.label("definition_by_function")
    try:
        with DIP(name=f"c14_{next(_uid)}") as p:
            for fname, fval in fns.items():
                p.add_function(fname, (lambda data, _v=fval: _v))
            p.add_string(stage1)
            env = p.parse()
        if stage2 is not None:
            if case.get("prelude"):
                # the unrelated text is parsed once more BETWEEN the two stages: the returned environment carries its
                # own definition of the unit, whatever other parsers did in the meantime
                with DIP(name=f"c14_{next(_uid)}") as p1:
                    p1.add_string(pre)
                    p1.parse().data()
                v.label("unrelated_parse_between_the_stages")
            with DIP(env, name=f"c14_{next(_uid)}") as p2:
                p2.add_string(stage2)
                env = p2.parse()
    except Exception as e:
        if case["fail"]:
            v.nt(True)
            v.label("fail_" + case["fail"])
            if case.get("const_after_mod"):
                v.label("constant_set_below_a_modification")
            return
        return v.fail("parse-raised", f"raised {e!r} for:\n{text}")
    try:
        # parse() returned: the environment must be readable (a refusal has to come from parse(), not from data())
        tup = env.data(Format.TUPLE)
        typ = env.data(Format.TYPE)
    except Exception as e:
        return v.fail("invalid-accepted" if case["fail"] else "unreadable",
                      f"parse() returned an environment whose data() raises {e!r}"
                      + (f" (the program is invalid: {case['fail']})" if case["fail"] else "") + f":\n{text}")
    if case["fail"] and not (case["fail"] == "literal" and case["kind"] == "str"):
        return v.fail("invalid-accepted", f"invalid program ({case['fail']}) was accepted, {path} = {tup.get(path)!r}:\n{text}")
    keys = list(tup)
    if keys.count(path) != 1:
        return v.fail("entries", f"{path} appears {keys.count(path)} times in {keys}:\n{text}")
    want_order = ["before"] + (["hsrc"] if case.get("first_by_slice") else []) + [path] + (["mid"] if case.get("const_after_mod") else [])
    for i, m in enumerate(case["mods"]):
        if m.get("via_ref"):
            want_order.append(f"helper{i}")
        if m["noise"]:
            want_order.append(f"noise{i}")
    want_order.append("after")
    if keys != want_order:
        return v.fail("order", f"keys {keys} != {want_order}:\n{text}")
    exp = model(case)
    got = tup[path]
    unit = case["unit"]
    if unit:
        if not (isinstance(got, tuple) and got[1] == unit):
            return v.fail("unit", f"{path} = {got!r}, expected unit {unit!r}:\n{text}")
        got = got[0]
    elif isinstance(got, tuple):
        return v.fail("unit", f"{path} = {got!r} carries an unexpected unit:\n{text}")
    got = D.to_py(got)
    ok = True
    if exp is None or got is None:
        ok = exp is None and got is None
    elif case["kind"] in ("float", "int"):
        ok = not isinstance(got, (bool, str, list)) and close(got, exp, 1e-9, 1e-300)
        last = case["mods"][-1]
        if ok and case["kind"] == "float" and case["type"] in ("float", "float64") and not last.get("by_expr") and \
                (last["unit"] is None or last["unit"] == unit):
            # no conversion on the way: a double node holds exactly the double that was written
            ok = float(got) == float(exp)
            v.label("float_literal_compared_exactly")
        if case["kind"] == "int" and ok:
            # an integer node holds an integer, also after a conversion whose float factor is inexact (1 us -> 1000 ns),
            # and exactly the integer written when no conversion took place (also beyond 2**53)
            ok = isinstance(got, int) and (got == exp if isinstance(exp, int) else
                                           abs(got - exp) <= max(0.5, 1e-9 * abs(exp)))
            if abs(exp) > 2 ** 53:
                v.label("int_beyond_2**53")
    elif case["kind"] == "farray":
        ok = isinstance(got, list) and len(got) == len(exp) and all(close(a, b, 1e-9, 1e-300) for a, b in zip(got, exp))
    else:
        ok = D.values_equal(got, exp)
    if not ok:
        return v.fail("value", f"{path} = {got!r} {unit or ''}, last assignment gives {exp!r} {unit or ''}:\n{text}")
    cls, prec, uns = D.typeinfo(case["type"])
    tobj = typ[path]
    if type(tobj).__name__ != cls or (prec is not None and int(tobj.precision) != prec) or \
            (uns is not None and bool(tobj.unsigned) != uns):
        return v.fail("type", f"{path}: {type(tobj).__name__} precision={getattr(tobj, 'precision', None)} "
                              f"unsigned={getattr(tobj, 'unsigned', None)} != {(cls, prec, uns)}:\n{text}")
    nchange = sum(1 for m in case["mods"] if m["unit"] and m["unit"] != unit)
    falsy = exp is None or exp is False or exp == 0 or (isinstance(exp, list) and not any(exp))
    v.nt((len(case["mods"]) >= 2 and nchange >= 1) or falsy)
    v.label(case["kind"], "declared" if case["declared"] else "defined")
    if falsy:
        v.label("falsy_final")
    if any(m["unit"] and m["unit"].startswith("[") for m in case["mods"]):
        v.label("custom_unit")
    if stage2 is not None:
        v.label("two_stage")
    if exp is None:
        v.label("final_none")
    if any(m.get("via_ref") for m in case["mods"]):
        v.label("value_by_reference")
    if case.get("first_by_slice"):
        v.label("definition_by_sliced_reference")
    for m in case["mods"]:
        if m.get("by_fn"):
            v.label("value_by_function", "function_returns_zero_or_false" if not _py(case["kind"], m["val"]) else "function_returns_truthy")
        if m.get("by_expr"):
            v.label("value_by_expression_typed" if m["typed"] else "value_by_expression_untyped")
            if not _expr(case["kind"], m)[1]:
                v.label("expression_result_zero_or_false")
    v.info = {"text": text}
