"""C12 — densities, volume and masses of matter are mutually consistent."""
import collections

import numpy as np
from hypothesis import strategies as st

from ..core import Verdict, close
from ..refs import units_ref as R
from . import c10_formula as F10
from . import c11_fractions as F11

ID = "C12"
RULE = (
    'Element (proportion 1..3), Substance (string, dict, or extended with add() after construction) and Material '
    '(number-fraction mode: string/dict/add; mass-fraction mode as a separate class) with exactly one of mass / '
    'number density in a random compatible unit (g/cm3 kg/m3 g/l kg/l lb/ft3; cm-3 m-3 l-1 mm-3) and an optional '
    'volume (l ml cm3 m3 gal), plus the same physical input re-expressed in a second unit set. Oracle '
    '(formula-unit mass M from the independent isotope-table expansion): rho = n M, the given density is reported '
    'unchanged, mass = rho V, sum_i rho_i = rho, sum_i M_i = mass, n_i = amount_i n, N_i = n_i V, and all outputs '
    'identical under the change of input units. Non-trivial: volume present and >=2 components, or non-default '
    'input units. Round 4: substances with a proportion, fractional dict amounts after a sibling with the same '
    'symbols, add() inside an open with-block, number densities given in pm-3 / nm-3. Later rounds: a refused '
    'formula earlier in the process; data_matter() as quantities against the number table. Round 7: dilute gases '
    'and nanometre volumes (fewer than 1e6 formula units). Distinct = distinct case JSON.'
)
ASSUMPTIONS = ["relative tolerance 1e-9", "composites have at least one component; densities and volumes are positive"]
NT_FLOOR = 0.4

RHO_U = ["g/cm3", "kg/m3", "g/l", "kg/l", "lb/ft3"]
N_U = ["cm-3", "m-3", "l-1", "mm-3", "pm-3", "nm-3"]      # 1e21 cm-3 = 1e-9 pm-3: tiny magnitudes in the given unit
V_U = ["l", "ml", "cm3", "m3", "gal", "nm3", "um3"]
DA_G = R.UNITS["Da"].mag / R.UNITS["g"].mag


def fac(u):
    return R.factor_of_expression_text(u)


pos = st.one_of(st.floats(0.01, 100.0), st.sampled_from([1.0, 0.3, 997.0, 2.5]), st.integers(1, 50).map(float))


@st.composite
def matter_case(draw):
    kind = draw(st.sampled_from(["element"] * 3 + ["substance"] * 6 + ["material"] * 6 + ["material_mass"]))
    nat = draw(st.booleans())
    if kind == "element":
        s = draw(F10.species())
        obj = {"expr": F10.sp_text(s), "sp": s, "proportion": draw(st.sampled_from([1, 1, 2, 3]))}
    elif kind == "substance":
        its = draw(F10.items(draw(st.integers(0, 1))))
        obj = {"items": [[i, j] for i, j in its],
               "form": draw(st.sampled_from(["string", "string", "dict", "add", "add_in_with", "dict_frac"]))}
        # the documented 'proportion' of a stand-alone substance is its share in a mixture, not part of its formula unit
        obj["proportion"] = draw(st.sampled_from([None, None, None, 2, 0.5, 3.0]))
        if obj["form"] == "dict_frac":
            # amounts below one (an alloy given by fractions); a sibling with the same symbols is built first
            obj["frac"] = draw(st.sampled_from([0.5, 0.25, 0.1, 0.8]))
        if obj["form"] in ("add", "add_in_with"):
            sp = draw(F10.species())
            obj["add"] = [sp, draw(st.integers(1, 4))]
    else:
        n = draw(st.integers(1, 4))
        forms = draw(st.lists(st.sampled_from(F11.POOL), min_size=n, max_size=n, unique=True))
        obj = {"comps": [[f, draw(F11.prop)] for f in forms], "form": draw(st.sampled_from(["string", "dict", "add", "add_in_with"]))}
        if obj["form"] in ("add", "add_in_with"):
            obj["add"] = [draw(st.sampled_from(F11.POOL)), draw(F11.prop)]
    given = draw(st.sampled_from(["rho", "n"]))
    units = RHO_U if given == "rho" else N_U
    if given == "rho":
        val = draw(pos)                      # g/cm3
    else:
        val = draw(pos) * 1e21               # cm-3
    vol = draw(st.one_of(st.none(), pos))    # litres
    # dilute gases and nanometre volumes: only a few (or less than one) formula units in the volume
    val *= draw(st.sampled_from([1, 1, 1, 1, 1e-24, 1e-20, 1e-12, 1e3]))
    if vol is not None:
        vol *= draw(st.sampled_from([1, 1, 1, 1e-24, 1e-21, 1e-12, 1e3]))
    return {"kind": kind, "natural": nat, "obj": obj, "given": given, "value": val,
            "unit1": draw(st.sampled_from(units)), "unit2": draw(st.sampled_from(units)),
            "volume": vol, "vunit1": draw(st.sampled_from(V_U)), "vunit2": draw(st.sampled_from(V_U)),
            "poke": draw(st.sampled_from([None, "convert", "add"]))}


def strategies(tier):
    return {"matter": (matter_case(), 1500, 40000)}


# --------------------------------------------------------------------------- construction and reference

def build(case, which):
    """-> (object, amounts {key: amount}, masses {key: mass Da})  built with unit set 1 or 2"""
    from scinumtools.materials import Element, Substance, Material, Norm
    from scinumtools.units import Quantity
    u = case["unit1"] if which == 1 else case["unit2"]
    std = "g/cm3" if case["given"] == "rho" else "cm-3"
    kw = {("mass_density" if case["given"] == "rho" else "number_density"): Quantity(case["value"] * fac(std) / fac(u), u)}
    if case["volume"] is not None:
        vu = case["vunit1"] if which == 1 else case["vunit2"]
        kw["volume"] = Quantity(case["volume"] * fac("l") / fac(vu), vu)
    nat = case["natural"]
    o = case["obj"]
    if case["kind"] == "substance" and o.get("proportion"):
        kw["proportion"] = o["proportion"]
    if case["kind"] == "element":
        obj = Element(o["expr"], proportion=o["proportion"], natural=nat, **kw)
        s = o["sp"]
        m = F10.species_data(s["el"], s["A"], s["q"] or 0, nat)[3]
        return obj, {o["expr"]: o["proportion"]}, {o["expr"]: m}
    if case["kind"] == "substance":
        text = F10.render(o["items"])
        counter = F10.expand(o["items"])
        if o["form"] in ("dict", "dict_frac"):
            # dictionary of species texts
            d = collections.OrderedDict()
            for (el, A, q), n in counter.items():
                d[F10.sp_text({"el": el, "A": A, "q": (q or None), "qs": "num"})] = n
            if o["form"] == "dict_frac":
                sibling = Substance({k: 1 for k in d}, natural=nat, **kw)      # same symbols, other amounts, same process
                sibling.data_matter(quantity=False)
                d = collections.OrderedDict((k, n * o["frac"]) for k, n in d.items())
                counter = collections.Counter({k: n * o["frac"] for k, n in counter.items()})
            obj = Substance(dict(d), natural=nat, **kw)
        else:
            obj = Substance(text, natural=nat, **kw)
        if o["form"] in ("add", "add_in_with"):
            sp, k = o["add"]
            if o["form"] == "add_in_with":
                obj.__enter__()           # 'with Substance(...) as s: s.add(...)', read while the block is open
            obj.add(F10.sp_text(sp), k)
            counter = counter + collections.Counter({(sp["el"], sp["A"], sp["q"] or 0): k})
        return obj, counter, None
    norm = Norm.MASS_FRACTION if case["kind"] == "material_mass" else Norm.NUMBER_FRACTION
    comps = o["comps"]
    if o["form"] == "string":
        obj = Material(" ".join(f"{F11._fmt(p)} <{f}>" for f, p in comps), natural=nat, norm_type=norm, **kw)
    else:
        obj = Material({f: p for f, p in comps}, natural=nat, norm_type=norm, **kw)
    final = collections.OrderedDict((f, p) for f, p in comps)
    if o["form"] in ("add", "add_in_with"):
        if o["form"] == "add_in_with":
            obj.__enter__()
        obj.add(o["add"][0], o["add"][1])
        final[o["add"][0]] = final.get(o["add"][0], 0) + o["add"][1]
    return obj, final, {f: F11.formula_mass(f, nat) for f in final}


def read(obj, case):
    out = {"rho": float(obj.mass_density.value("g/cm3")), "n": float(obj.number_density.value("cm-3")),
           "mass": None if obj.mass is None or case["volume"] is None else float(obj.mass.value("g"))}
    tab = obj.data_matter(quantity=False)
    rows = {k: {c: float(getattr(r, c)) for c in r.keys()} for k, r in tab.items() if k not in ("avg", "sum")}
    out["rows"] = rows
    # the same table asked for as quantities: each entry is the same number once brought to the table's units
    tq = obj.data_matter()
    unit_of = {"n": "cm-3", "rho": "g/cm3", "M": "g"}
    out["qrows"] = {}
    for k, r in tq.items():
        if k in ("avg", "sum"):
            continue
        out["qrows"][k] = {c: (float(getattr(r, c).value(unit_of[c])) if hasattr(getattr(r, c), "value") and c in unit_of
                               else float(getattr(r, c))) for c in r.keys()}
    out["sum"] = {c: float(getattr(tab["sum"], c)) for c in tab["sum"].keys()} if "sum" in tab.keys() else None
    return out


def check(case):
    v = Verdict()
    try:
        _check(case, v)
    finally:
        if not R.tables_pristine():
            R.restore_tables()
    return v


def _desc(case):
    o = case["obj"]
    if case["kind"] == "element":
        what = f"Element({o['expr']!r}, proportion={o['proportion']})"
    elif case["kind"] == "substance":
        what = f"Substance[{o['form']}]({F10.render(o['items'])!r}{'' if o['form'] != 'add' else ' then add ' + F10.sp_text(o['add'][0]) + ' x' + str(o['add'][1])})"
    else:
        what = f"Material[{case['kind']},{o['form']}]({o['comps']!r}{'' if o['form'] != 'add' else ' then add ' + repr(o['add'])})"
    return f"{what} natural={case['natural']} {case['given']}={case['value']!r} (std units) given in {case['unit1']}, V={case['volume']!r} l given in {case['vunit1']}"


def _check(case, v):
    text = _desc(case)
    # a formula the solver refuses, caught by the caller, happened earlier in this process
    try:
        from scinumtools.materials import Substance
        Substance("H2Xx")
    except Exception:
        pass
    try:
        obj, amounts, masses = build(case, 1)
        got = read(obj, case)
    except Exception as e:
        return v.fail("matter-raised", f"{text} raised {e!r}")
    # formula-unit mass in g
    if case["kind"] == "substance":
        exp = F10.expected(amounts, case["natural"])
        M = sum(n * m for n, m, *_ in exp.values()) * DA_G
    else:
        M = sum(amounts[k] * masses[k] for k in amounts) * DA_G
    if case["given"] == "rho":
        rho, n = case["value"], case["value"] / M
    else:
        n, rho = case["value"], case["value"] * M
    if not close(got["rho"], rho, 1e-9):
        return v.fail("rho", f"{text}: mass density {got['rho']!r} g/cm3, expected {rho!r} (n*M with M={M!r} g)")
    if not close(got["n"], n, 1e-9):
        return v.fail("n", f"{text}: number density {got['n']!r} cm-3, expected {n!r} (rho/M with M={M!r} g)")
    V = None if case["volume"] is None else case["volume"] * 1000.0   # cm3
    if V is not None:
        if got["mass"] is None or not close(got["mass"], rho * V, 1e-9):
            return v.fail("mass", f"{text}: mass {got['mass']!r} g, expected rho*V = {rho * V!r}")
    rows = got["rows"]
    for k in rows:
        for c in rows[k]:
            if k not in got["qrows"] or c not in got["qrows"][k] or not close(rows[k][c], got["qrows"][k][c], 1e-9):
                return v.fail("quantity-table", f"{text}: {c}[{k}] = {rows[k][c]!r} in the number table but "
                                                f"{got['qrows'].get(k, {}).get(c)!r} (same units) in the quantity table")
    srho = sum(r["rho"] for r in rows.values())
    if not close(srho, rho, 1e-9):
        return v.fail("sum-rho", f"{text}: component mass densities add up to {srho!r}, rho = {rho!r}")
    if got["sum"] is not None and not close(got["sum"]["rho"], rho, 1e-9):
        return v.fail("sum-rho", f"{text}: 'sum' row rho {got['sum']['rho']!r} != {rho!r}")
    if V is not None:
        sM = sum(r["M"] for r in rows.values())
        if not close(sM, rho * V, 1e-9):
            return v.fail("sum-mass", f"{text}: component masses add up to {sM!r}, total mass = {rho * V!r}")
    # component number densities = amount * n
    if case["kind"] == "substance":
        comp = obj.data_components(quantity=False)
        for k, r in rows.items():
            cnt = float(comp[k].count)
            if not close(r["n"], cnt * n, 1e-9):
                return v.fail("component-n", f"{text}: n[{k}] = {r['n']!r}, expected count*n = {cnt * n!r}")
            if V is not None and not close(r["N"], cnt * n * V, 1e-9):
                return v.fail("component-N", f"{text}: N[{k}] = {r['N']!r}, expected {cnt * n * V!r}")
        tot = sum(float(comp[k].count) for k in rows)
        exp_tot = sum(x[0] for x in F10.expected(amounts, case["natural"]).values())
        if not close(tot, exp_tot, 1e-12):
            return v.fail("component-n", f"{text}: counts {tot} != {exp_tot}")
    else:
        if sorted(rows) != sorted(amounts):
            return v.fail("components", f"{text}: rows {sorted(rows)} != {sorted(amounts)}")
        for k, a in amounts.items():
            if not close(rows[k]["n"], a * n, 1e-9):
                return v.fail("component-n", f"{text}: n[{k}] = {rows[k]['n']!r}, expected amount*n = {a * n!r}")
            if not close(rows[k]["rho"], a * masses[k] * DA_G * n, 1e-9):
                return v.fail("component-rho", f"{text}: rho[{k}] = {rows[k]['rho']!r}, expected {a * masses[k] * DA_G * n!r}")
            if V is not None and not close(rows[k]["N"], a * n * V, 1e-9):
                return v.fail("component-N", f"{text}: N[{k}] = {rows[k]['N']!r}, expected {a * n * V!r}")
    # the object's own density quantities converted in place (or an addition with it as left operand) must not
    # change what the matter table reports
    try:
        if case.get("poke") == "convert":
            obj.number_density.to("m-3")
            obj.mass_density.to("kg/m3")
            if obj.volume is not None:
                obj.volume.to("m3")
        elif case.get("poke") == "add" and case["kind"] in ("material", "substance"):
            from scinumtools.materials import Material, Substance
            other = Material({"Zn": 0.5, "H2O": 1.0}, natural=case["natural"]) if case["kind"] == "material" else Substance("ZnO", natural=case["natural"])
            _sum = obj + other
        if case.get("poke"):
            again = read(obj, case)
            for key in ("rho", "n", "mass"):
                a, b = got[key], again[key]
                if (a is None) != (b is None) or (a is not None and not close(a, b, 1e-9)):
                    return v.fail("poke", f"{text}: {key} = {a!r} before and {b!r} after poke={case['poke']}")
            for k in rows:
                for c in rows[k]:
                    if k not in again["rows"] or not close(rows[k][c], again["rows"][k][c], 1e-9):
                        return v.fail("poke", f"{text}: {c}[{k}] = {rows[k][c]!r} before and "
                                              f"{again['rows'].get(k, {}).get(c)!r} after poke={case['poke']}")
            if sorted(again["rows"]) != sorted(rows):
                return v.fail("poke", f"{text}: components {sorted(rows)} became {sorted(again['rows'])} after poke={case['poke']}")
    except Exception as e:
        return v.fail("matter-raised", f"{text}: poke={case.get('poke')} raised {e!r}")
    # unit independence
    try:
        obj2, _a, _m = build(case, 2)
        got2 = read(obj2, case)
    except Exception as e:
        return v.fail("matter-raised", f"{text} re-expressed in {case['unit2']}/{case['vunit2']} raised {e!r}")
    for key in ("rho", "n", "mass"):
        a, b = got[key], got2[key]
        if (a is None) != (b is None) or (a is not None and not close(a, b, 1e-9)):
            return v.fail("unit-dependence", f"{text}: {key} = {a!r} but {b!r} when the inputs are given in "
                                             f"{case['unit2']} / {case['vunit2']}")
    for k in rows:
        for c in rows[k]:
            if not close(rows[k][c], got2["rows"][k][c], 1e-9):
                return v.fail("unit-dependence", f"{text}: {c}[{k}] = {rows[k][c]!r} vs {got2['rows'][k][c]!r} in other input units")
    v.nt((V is not None and len(rows) >= 2) or case["unit1"] not in ("g/cm3", "cm-3") or case["unit2"] not in ("g/cm3", "cm-3"))
    v.label(case["kind"], "given_" + case["given"], "volume" if V is not None else "no_volume",
            case["obj"].get("form", "element"))


def _known_mass_mode(case, kind, detail):
    return case.get("kind") == "material_mass" and kind == "matter-raised"


KNOWN = {"C12-K1": _known_mass_mode}
