"""C08 — measurement uncertainties propagate consistently and stay non-negative."""
import copy
import numpy as np
from hypothesis import strategies as st

from ..core import Verdict, close
from ..refs import units_ref as R
from ..refs import unit_gens as G

ID = "C08"
RULE = (
    'Magnitude / Quantity operands with values of either sign, absolute uncertainty None or positive (mostly <50% '
    'relative, some 125-300%), scalars and arrays, exact numbers of either sign, integer powers -3..3, rele= '
    'constructors, and linear unit conversions between random same-dimension unit expressions. One predicate per '
    'clause of the property: result error None or >= 0 everywhere; +/-: ea+eb (right error scaled by F(v)/F(u) '
    'for mixed units); exact factor k: |k| ea resp. ea/|k|; two uncertain positive operands: >= a eb + b ea '
    '(product), >= ea/b + a eb/b^2 (quotient); to(v)/value-preserving conversion scales the absolute error by '
    'F(u)/F(v) and keeps the relative error; exact operands give an exact result; integer errors set with the '
    'in-place setter; a.to(b) with an uncertain reference quantity b behaves like a/b. Non-trivial: negative '
    'factor or exponent or value, array operand, or a conversion with F(u)!=F(v) of an uncertain quantity. Round '
    '4: sums/differences of levels (dB family) with errors, the same object on both sides of an operator, bare '
    'numbers converted to (m)rad. Later rounds: measured zeros; rebase() as a conversion; Quantity(x, q) with an '
    'uncertain quantity q as the unit; integer absolute errors. Round 8: negation keeps the uncertainty '
    '(Magnitude and Quantity); a relative error overridden by an absolute one before a conversion. Round 9: a '
    'measured zero raised to a positive power (no exception, no nan). Round 10: Decimal magnitudes with Decimal uncertainties scaled by exact Decimals of either sign. Distinct = distinct case JSON.'
)
ASSUMPTIONS = [
    "the size of the power rule is not claimed by the property (only its sign is checked)",
    "first-order bounds use a 1e-12 relative slack plus 1e-14*|result| (the library subtracts interval ends from the result)",
    "values are kept within 1e+-30 and unit factors within 1e+-60 (float range)",
]
NT_FLOOR = 0.3

vals = G.finite_floats(lo_exp=-20, hi_exp=20).filter(lambda x: x != 0)
relerr = st.one_of(st.floats(1e-6, 0.45), st.sampled_from([0.01, 0.1, 0.25]),
                   st.integers(-13, -6).map(lambda e: 10.0 ** e), st.sampled_from([1e-9, 5e-10, 1e-8, 2e-8]),
                   st.sampled_from([1.25, 1.5, 3.0]))      # poorly determined values: the error exceeds the value


@st.composite
def operand(draw, allow_exact=True, positive=False, array=None):
    is_arr = draw(st.booleans()) if array is None else array
    n = draw(st.integers(1, 3)) if is_arr else 1
    xs = [draw(vals) for _ in range(n)]
    if positive:
        xs = [abs(x) for x in xs]
    if allow_exact and draw(st.integers(0, 3)) == 0:
        e = None
    else:
        r = draw(relerr)
        e = [abs(x) * r for x in xs] if draw(st.booleans()) else min(abs(x) for x in xs) * r
        if isinstance(e, list) and not is_arr:
            e = e[0]
        if isinstance(e, list) and draw(st.booleans()):
            e = min(e)      # a scalar error broadcast over an array
    return {"x": xs if is_arr else xs[0], "e": e}


@st.composite
def mag_case(draw):
    op = draw(st.sampled_from(["+", "-", "*", "/"]))
    positive = op in "*/" and draw(st.booleans())
    a = draw(operand(positive=positive))
    b = draw(operand(positive=positive, array=isinstance(a["x"], list) and draw(st.booleans())))
    if isinstance(a["x"], list) and isinstance(b["x"], list) and len(a["x"]) != len(b["x"]):
        b = {"x": b["x"][0], "e": (b["e"][0] if isinstance(b["e"], list) else b["e"])}
    # the very same object on both sides (m*m, m+m): the same rules as for two equal operands
    return {"kind": "mag", "op": op, "a": a, "b": b, "self": draw(st.integers(0, 7)) == 0}


@st.composite
def exact_case(draw):
    a = draw(operand(allow_exact=False))
    if draw(st.integers(0, 5)) == 0:
        # a measured zero: the value is 0, its absolute uncertainty is not
        e0 = draw(st.sampled_from([0.1, 2.5, 1e-3]))
        if isinstance(a["x"], list):
            a = {"x": [0.0] + a["x"][1:], "e": e0}
        else:
            a = {"x": 0.0, "e": e0}
    k = draw(st.one_of(st.integers(-9, 9).filter(lambda i: i != 0).map(float), vals, st.sampled_from([-1.0, -2.5, 0.5])))
    form = draw(st.sampled_from(["a*k", "k*a", "a/k", "a*K", "K*a", "a/K"]))   # K: Magnitude without error
    return {"kind": "exact", "a": a, "k": k, "form": form}


@st.composite
def pow_case(draw):
    a = draw(operand())
    p = draw(st.integers(-3, 3))
    if p > 0 and draw(st.integers(0, 4)) == 0:
        # a measured zero raised to a positive power: still a result with a non-negative (finite) uncertainty
        a = {"x": [0.0, 2.0] if isinstance(a["x"], list) else 0.0, "e": draw(st.sampled_from([0.1, 0.25, 2.0]))}
    return {"kind": "pow", "a": a, "p": p, "neg": draw(st.booleans())}


@st.composite
def rele_case(draw):
    a = draw(operand(allow_exact=True))
    return {"kind": "rele", "x": a["x"], "rele": draw(st.floats(0.001, 40.0)), "via": draw(st.sampled_from(["ctor", "method", "quantity"]))}


@st.composite
def conv_case(draw):
    dim = draw(st.sampled_from(G.DIMS))
    u = draw(G.expr_of_dim(dim))
    w = draw(G.expr_of_dim(dim))
    a = draw(operand(allow_exact=False))
    # the error may be set afterwards with the in-place setter, as a Python int (stays an int until the conversion)
    int_abse = draw(st.sampled_from([None, None, None, 1, 5, 50]))
    return {"kind": "conv", "u": u, "v": w, "a": a, "int_abse": int_abse, "rebase": draw(st.integers(0, 4)) == 0,
            "rele_first": draw(st.integers(0, 3)) == 0}


@st.composite
def qsum_case(draw):
    dim = draw(st.sampled_from(G.DIMS))
    u = draw(G.expr_of_dim(dim))
    w = draw(G.expr_of_dim(dim))
    a = draw(operand(array=False))
    b = draw(operand(array=False))
    if draw(st.integers(0, 4)) == 0:
        # an operand that is exactly zero still carries its (absolute) uncertainty
        b = {"x": 0.0, "e": draw(st.sampled_from([1.0, 0.5, 2e-3]))}
    return {"kind": "qsum", "op": draw(st.sampled_from(["+", "-"])), "u": u, "v": w, "a": a, "b": b,
            "b_int_abse": draw(st.sampled_from([None, None, None, 1, 5, 50]))}


@st.composite
def custom_conv_case(draw):
    """the same custom symbol registered in two successive scopes with different factors: every conversion must use
    the factor of its own scope, for the value and for the uncertainty"""
    m1, m2 = draw(st.lists(st.sampled_from([0.75, 1.5, 2.0, 0.3, 10.0]), min_size=2, max_size=2, unique=True))
    a = draw(operand(allow_exact=False, array=False, positive=True))
    return {"kind": "custom_conv", "m": [m1, m2], "a": a, "target": draw(st.sampled_from(["m", "cm", "km"])),
            "how": draw(st.sampled_from(["to", "sum"]))}


@st.composite
def qprod_case(draw):
    dim = draw(st.sampled_from(G.DIMS))
    u = draw(G.expr_of_dim(dim))
    same = draw(st.booleans())
    w = draw(G.expr_of_dim(dim if same else draw(st.sampled_from(G.DIMS))))
    a = draw(operand(allow_exact=False, positive=True, array=False))
    b = draw(operand(positive=True, array=False))
    # 'to': a expressed in multiples of the (possibly uncertain) reference quantity b - the same quotient as a/b
    # 'ctor': the alternative constructor Quantity(a, b) with the (possibly uncertain) quantity b as unit - the product a*b
    op = draw(st.sampled_from(["*", "/", "to", "ctor"] if same else ["*", "/", "ctor"]))
    if op in ("to", "ctor") and draw(st.booleans()):
        a = dict(a, e=None)
    return {"kind": "qprod", "op": op, "u": u, "v": w, "a": a, "b": b}


@st.composite
def logsum_case(draw):
    u = draw(st.sampled_from(["dB", "dBm", "dBW", "dBV", "B", "dBA", "Np"]))
    lv = st.floats(-30.0, 60.0)
    e = st.one_of(st.none(), st.floats(0.01, 3.0))
    a, b = draw(lv), draw(lv)
    op = draw(st.sampled_from(["+", "-"]))
    if op == "-" and not a - b >= 0.5:
        a, b = max(a, b) + 1.0, min(a, b)
    return {"kind": "logsum", "u": u, "a": {"x": a, "e": draw(e)}, "b": {"x": b, "e": draw(e)}, "op": op}


@st.composite
def radconv_case(draw):
    a = draw(operand(allow_exact=False))
    return {"kind": "radconv", "a": a, "v": draw(st.sampled_from(["mrad", "rad", "mrad"]))}


@st.composite
def decimal_exact_case(draw):
    """decimal.Decimal magnitudes (a documented magnitude type) with a Decimal uncertainty, scaled by an exact Decimal"""
    x = draw(st.sampled_from(["4", "-4", "0.25", "12.5", "-0.75", "1000"]))
    e = draw(st.sampled_from(["0.05", "0.5", "0.001", "2"]))
    k = draw(st.sampled_from(["-3", "3", "-2", "-0.5", "0.5", "-1", "7", "-10"]))
    form = draw(st.sampled_from(["a*k", "k*a", "a/k", "a*K", "K*a", "a/K", "q*k", "k*q", "q/k"]))
    return {"kind": "decimal_exact", "x": x, "e": e, "k": k, "form": form}


def strategies(tier):
    return {
        "decimal_exact": (decimal_exact_case(), 150, 1500),
        "log_sums": (logsum_case(), 400, 8000),
        "number_to_rad": (radconv_case(), 200, 4000),
        "magnitude_ops": (mag_case(), 2500, 60000),
        "exact_factor": (exact_case(), 1000, 20000),
        "power": (pow_case(), 600, 10000),
        "rele": (rele_case(), 300, 5000),
        "conversion": (conv_case(), 1200, 30000),
        "quantity_sum": (qsum_case(), 800, 20000),
        "quantity_prod": (qprod_case(), 1000, 20000),
        "custom_units": (custom_conv_case(), 300, 5000),
    }


# --------------------------------------------------------------------------- oracle

def _np(x):
    return None if x is None else np.asarray(x, dtype=float)


def _mk(o):
    from scinumtools.units import Magnitude
    return Magnitude(o["x"] if not isinstance(o["x"], list) else list(o["x"]),
                     abse=(None if o["e"] is None else (np.array(o["e"], dtype=float) if isinstance(o["e"], list) else o["e"])))


def _err(o, shape=None):
    """operand's absolute error as array broadcast to its value (0 where absent -> None handled by caller)"""
    if o["e"] is None:
        return None
    return np.broadcast_to(_np(o["e"]), np.shape(_np(o["x"]))).astype(float)


def _nonneg(err):
    return err is None or bool(np.all(_np(err) >= 0))


def _eq(got, exp, rel=1e-11):
    g, e = np.atleast_1d(_np(got)), np.atleast_1d(_np(exp))
    try:
        g, e = np.broadcast_arrays(g, e)
    except ValueError:
        return False
    return all(close(x, y, rel, 1e-300) for x, y in zip(g.ravel().tolist(), e.ravel().tolist()))


def _ge(got, bound, value):
    """got >= bound up to the rounding of the result value (interval ends are subtracted from it)"""
    g, b, val = np.broadcast_arrays(np.atleast_1d(_np(got)), np.atleast_1d(_np(bound)), np.atleast_1d(_np(value)))
    return bool(np.all(g >= b * (1 - 1e-12) - 1e-14 * np.abs(val)))


def check_mag(case, v):
    a, b, op = case["a"], case["b"], case["op"]
    if case.get("self"):
        b = a
    A, B = _mk(a), _mk(b)
    if case.get("self"):
        B = A
        v.label("same_object_both_sides")
    r = {"+": lambda: A + B, "-": lambda: A - B, "*": lambda: A * B, "/": lambda: A / B}[op]()
    err = r.abse()
    xa, xb, ea, eb = _np(a["x"]), _np(b["x"]), _err(a), _err(b)
    txt = f"Magnitude({a['x']!r},{a['e']!r}) {op} Magnitude({b['x']!r},{b['e']!r})"
    if not _nonneg(err):
        return v.fail("negative-error", f"{txt} has error {err!r}")
    if ea is None and eb is None:
        if err is not None:
            return v.fail("exact-not-exact", f"{txt}: exact operands gave error {err!r}")
        v.label("exact_operands")
    elif err is None:
        return v.fail("error-lost", f"{txt}: result has no error")
    elif op in "+-":
        exp = (0 if ea is None else ea) + (0 if eb is None else eb)
        if not _eq(err, exp):
            return v.fail("sum-error", f"{txt}: error {err!r}, expected ea+eb = {exp!r}")
    elif ea is not None and eb is not None:
        if np.all(xa > 0) and np.all(xb > 0):
            bound = xa * eb + xb * ea if op == "*" else ea / xb + xa * eb / xb ** 2
            if not _ge(err, bound, xa * xb if op == "*" else xa / xb):
                crossing = op == "/" and bool(np.any(eb >= xb))
                return v.fail("first-order", f"{txt}: error {err!r} < first-order bound {bound!r}" +
                              (f" [divisor interval reaches zero; reported_max={float(np.max(_np(err)))!r}]" if crossing else ""))
            v.label("first_order_checked")
            if op == "/" and bool(np.any(eb >= xb)):
                v.label("divisor_interval_reaches_zero")
    else:
        # one exact operand
        if op == "*":
            exp = np.abs(xb) * ea if eb is None else np.abs(xa) * eb
            if not _eq(err, exp):
                return v.fail("exact-factor", f"{txt}: error {err!r}, expected |k|*e = {exp!r}")
        elif eb is None:
            exp = ea / np.abs(xb)
            if not _eq(err, exp):
                return v.fail("exact-factor", f"{txt}: error {err!r}, expected e/|k| = {exp!r}")
    neg = bool(np.any(xa < 0) or np.any(xb < 0))
    v.nt(neg or isinstance(a["x"], list) or isinstance(b["x"], list))
    v.label("mag" + op)
    if neg:
        v.label("negative_value")


def check_exact(case, v):
    from scinumtools.units import Magnitude
    a, k, form = case["a"], case["k"], case["form"]
    A = _mk(a)
    K = Magnitude(k) if "K" in form else k
    r = {"a*k": lambda: A * K, "k*a": lambda: K * A, "a/k": lambda: A / K,
         "a*K": lambda: A * K, "K*a": lambda: K * A, "a/K": lambda: A / K}[form]()
    ea = _err(a)
    exp = ea / abs(k) if "/" in form else ea * abs(k)
    err = r.abse()
    txt = f"{form} with a=Magnitude({a['x']!r},{a['e']!r}), k={k!r}"
    if err is None:
        return v.fail("error-lost", f"{txt}: result has no error")
    if not _nonneg(err):
        return v.fail("negative-error", f"{txt} has error {err!r}")
    if not _eq(err, exp):
        return v.fail("exact-factor", f"{txt}: error {err!r}, expected {exp!r}")
    v.nt(k < 0 or isinstance(a["x"], list))
    v.label("exact_" + form)


def check_decimal_exact(case, v):
    from decimal import Decimal
    from scinumtools.units import Magnitude, Quantity
    x, e, k, form = Decimal(case["x"]), Decimal(case["e"]), Decimal(case["k"]), case["form"]
    K = Magnitude(k) if "K" in form else k
    txt = f"{form} with a = {'Quantity' if 'q' in form else 'Magnitude'}(Decimal({case['x']}) +- Decimal({case['e']})), k = Decimal({case['k']})"
    try:
        # (a Decimal quantity with an uncertainty cannot be built with a unit string on the unchanged tree: discarded)
        A = Quantity(x, {"m": 1}, abse=e) if "q" in form else Magnitude(x, e)
        r = {"*": lambda: (K * A if form[0] in "kK" else A * K), "/": lambda: A / K}[form[1]]()
    except Exception as ex:
        return v.discard("decimal arithmetic not supported for this form: " + type(ex).__name__)
    err = r.abse()
    if isinstance(err, Magnitude) or hasattr(err, "value") and not isinstance(err, Decimal):
        err = err.value
    if err is None:
        return v.fail("error-lost", f"{txt}: result has no error")
    exp = e / abs(k) if "/" in form else e * abs(k)
    if err < 0:
        return v.fail("negative-error", f"{txt} has error {err!r}")
    if abs(Decimal(str(err)) - exp) > abs(exp) * Decimal("1e-12"):
        return v.fail("exact-factor", f"{txt}: error {err!r}, expected {exp!r}")
    v.nt(k < 0)
    v.label("decimal_exact_" + form)


def check_pow(case, v):
    a, p = case["a"], case["p"]
    A = _mk(a)
    if case["neg"]:
        A = -A
    txt = f"({'-' if case['neg'] else ''}Magnitude({a['x']!r},{a['e']!r}))**{p}"
    try:
        with np.errstate(all="ignore"):
            r = A ** p
    except ZeroDivisionError as e:
        if p < 0 and np.any(_np(a["x"]) == 0):
            return v.discard("zero-to-negative-power")
        return v.fail("pow-raised", f"{txt} raised {e!r}")
    err = r.abse()
    if err is not None and np.any(np.isnan(_np(err))) and not np.any(np.isnan(_np(r.value()))):
        return v.fail("negative-error", f"{txt} has error {err!r} (not a number)")
    if not _nonneg(err):
        return v.fail("negative-error", f"{txt} has error {err!r}")
    if a["e"] is None and err is not None:
        return v.fail("exact-not-exact", f"{txt}: exact operand gave error {err!r}")
    if case["neg"] and not _nonneg((-_mk(a)).abse()):
        return v.fail("negative-error", f"negation has error {(-_mk(a)).abse()!r}")
    if case["neg"]:
        # negation is multiplication by the exact number -1: the uncertainty stays what it was, for a bare magnitude
        # and for a quantity alike (an uncertain operand does not become exact)
        from scinumtools.units import Quantity
        want = _err(a)
        for what, obj in (("Magnitude", _mk(a)), ("Quantity", Quantity(_mk(a), "m"))):
            got = (-obj).abse()
            if (want is None) != (got is None) or (want is not None and not _eq(got, want)):
                return v.fail("negation-error", f"-{what}({a['x']!r}, abse={a['e']!r}) has error {got!r}, expected {a['e']!r}")
        v.label("negation_keeps_the_uncertainty")
    v.nt(p < 0 or case["neg"] or bool(np.any(_np(a["x"]) < 0)))
    v.label("pow")


def check_rele(case, v):
    from scinumtools.units import Magnitude, Quantity
    x = case["x"]
    if case["via"] == "ctor":
        m = Magnitude(x, rele=case["rele"])
    elif case["via"] == "method":
        m = Magnitude(x).rele(case["rele"])
    else:
        m = Quantity(x, "m", rele=case["rele"]).magnitude
    err = m.abse()
    if not _nonneg(err):
        return v.fail("negative-error", f"relative error {case['rele']}% of {x!r} ({case['via']}) stored as absolute {err!r}")
    if not _eq(err, np.abs(_np(x)) * case["rele"] / 100):
        return v.fail("rele-value", f"rele={case['rele']} of {x!r}: abse {err!r}")
    v.nt(bool(np.any(_np(x) < 0)))
    v.label("rele_" + case["via"])


def _F(t):
    uf, nf, dim, atoms, lg = R.evaluate(t)
    return None if lg > 60 else uf * nf


def check_conv(case, v):
    from scinumtools.units import Quantity
    tu, tv = R.render(case["u"]), R.render(case["v"])
    fu, fv = _F(case["u"]), _F(case["v"])
    if fu is None or fv is None:
        return v.discard("float-range")
    a = case["a"]
    q = Quantity(_mk(a), tu)
    if case.get("int_abse"):
        q = Quantity(a["x"] if not isinstance(a["x"], list) else list(a["x"]), tu)
        q.abse(int(case["int_abse"]))
        a = {"x": a["x"], "e": float(case["int_abse"]) * R.factor_of_expression(q.units()) / fu}
        v.label("int_error_by_setter")
    if case.get("rele_first") and not case.get("int_abse") and not isinstance(a["e"], list) and a["e"] is not None:
        # the uncertainty was first given as a percentage and then overridden with the absolute number: the later call counts
        try:
            e_prev = copy.deepcopy(q.abse())
            q.rele(10.0)
            q.abse(e_prev)
            v.label("relative_error_overridden_by_absolute")
        except ZeroDivisionError:
            q = Quantity(_mk(a), tu)
    # Quantity(x,u) folds a dimensionless compound: the error must be folded with the same factor as the value
    if not _eq(_np(q.abse()) * R.factor_of_expression(q.units()), _err(a) * fu):
        return v.fail("constructor-error", f"Quantity({a['x']!r}+-{a['e']!r},{tu!r}) reports abse {q.abse()!r} {q.units()}: "
                                           f"base error {_np(q.abse()) * R.factor_of_expression(q.units())!r}, expected {_err(a) * fu!r}")
    e0 = _np(q.abse())
    x0 = _np(q.value())
    f0 = R.factor_of_expression(q.units())
    r0 = _np(q.rele())
    if case.get("rebase"):
        # rebase() re-expresses mixed units of one dimension (cm*m -> cm2): a linear conversion like any other
        qr = Quantity(_mk(a), tu)
        if case.get("int_abse"):
            qr = Quantity(a["x"] if not isinstance(a["x"], list) else list(a["x"]), tu)
            qr.abse(int(case["int_abse"]))
        qr.rebase()
        fr = R.factor_of_expression(qr.units())
        if qr.abse() is None or not _eq(_np(qr.abse()) * fr, e0 * f0, 1e-10):
            return v.fail("conversion-error", f"Quantity({a['x']!r}+-{a['e']!r},{tu!r}).rebase() -> {qr.units()}: abse "
                                              f"{qr.abse()!r} (base {None if qr.abse() is None else _np(qr.abse()) * fr!r}), "
                                              f"expected base {e0 * f0!r}")
        if not _eq(qr.rele(), r0, 1e-9):
            return v.fail("conversion-rele", f"rebase() of Quantity({a['x']!r}+-{a['e']!r},{tu!r}): relative error "
                                             f"{r0!r} -> {qr.rele()!r}")
        if fr != f0:
            v.label("rebase_changed_units")
    q.to(tv)
    err = q.abse()
    if err is None:
        return v.fail("error-lost", f"Quantity({a['x']!r}+-{a['e']!r},{tu!r}).to({tv!r}) lost its error")
    if not _nonneg(err):
        return v.fail("negative-error", f"after to({tv!r}): error {err!r}")
    exp = e0 * f0 / fv
    if not _eq(err, exp):
        return v.fail("conversion-error", f"Quantity({a['x']!r}+-{a['e']!r},{tu!r}).to({tv!r}): abse {err!r}, expected "
                                          f"{exp!r} (value scaled by {f0 / fv!r})")
    if not _eq(q.rele(), r0, 1e-10):
        return v.fail("conversion-rele", f"relative error changed from {r0!r} to {q.rele()!r} in {tu}->{tv}")
    v.nt(fu != fv)
    v.label("conversion")


def check_qsum(case, v):
    from scinumtools.units import Quantity
    tu, tv = R.render(case["u"]), R.render(case["v"])
    fu, fv = _F(case["u"]), _F(case["v"])
    if fu is None or fv is None:
        return v.discard("float-range")
    a, b = case["a"], case["b"]
    qa, qb = Quantity(_mk(a), tu), Quantity(_mk(b), tv)
    if case.get("b_int_abse"):
        qb = Quantity(b["x"], tv)
        qb.abse(int(case["b_int_abse"]))
        b = {"x": b["x"], "e": case["b_int_abse"]}
        v.label("int_error_by_setter")
    fa = R.factor_of_expression(qa.units())
    fb = R.factor_of_expression(qb.units())
    ea, eb = qa.abse(), qb.abse()
    r = qa + qb if case["op"] == "+" else qa - qb
    err = r.abse()
    txt = f"Quantity({a['x']!r}+-{a['e']!r},{tu!r}) {case['op']} Quantity({b['x']!r}+-{b['e']!r},{tv!r})"
    if not _nonneg(err):
        return v.fail("negative-error", f"{txt}: error {err!r}")
    if ea is None and eb is None:
        if err is not None:
            return v.fail("exact-not-exact", f"{txt}: error {err!r}")
        return v.label("exact_operands")
    exp = (0 if ea is None else _np(ea)) + (0 if eb is None else _np(eb) * fb / fa)
    if err is None or not _eq(err, exp):
        return v.fail("sum-error", f"{txt}: error {err!r}, expected {exp!r} (in {qa.units()})")
    v.nt(fa != fb)
    v.label("qsum")


def check_custom_conv(case, v):
    from scinumtools.units import Quantity, UnitEnvironment
    a = case["a"]
    ft = R.factor_of_expression_text(case["target"])
    for i, m in enumerate(case["m"]):
        with UnitEnvironment({"pace": {"magnitude": m, "dimensions": [1, 0, 0, 0, 0, 0, 0, 0]}}):
            q = Quantity(_mk(a), "pace")
            if case["how"] == "to":
                q.to(case["target"])
                exp_v, exp_e = _np(a["x"]) * m / ft, _err(a) * m / ft
                what = f"scope {i + 1} (1 pace = {m} m): Quantity({a['x']!r}+-{a['e']!r},'pace').to({case['target']!r})"
            else:
                q = Quantity(1.0, case["target"], abse=0.0) + q
                exp_v, exp_e = 1.0 + _np(a["x"]) * m / ft, _err(a) * m / ft
                what = f"scope {i + 1} (1 pace = {m} m): Quantity(1,{case['target']!r},abse=0) + Quantity({a['x']!r}+-{a['e']!r},'pace')"
            if not _eq(q.value(), exp_v, 1e-10):
                return v.fail("custom-value", f"{what} = {q.value()!r}, expected {exp_v!r}")
            if q.abse() is None or not _eq(q.abse(), exp_e, 1e-10):
                return v.fail("conversion-error", f"{what}: abse {q.abse()!r}, expected {exp_e!r}")
    v.nt(True)
    v.label("custom_units")


def check_qprod(case, v):
    from scinumtools.units import Quantity
    tu, tv = R.render(case["u"]), R.render(case["v"])
    fu, fv = _F(case["u"]), _F(case["v"])
    if fu is None or fv is None:
        return v.discard("float-range")
    a, b, op = case["a"], case["b"], case["op"]
    qa, qb = Quantity(_mk(a), tu), Quantity(_mk(b), tv)
    Ba, Bb = _np(a["x"]) * fu, _np(b["x"]) * fv
    ea = None if a["e"] is None else _err(a) * fu
    eb = None if b["e"] is None else _err(b) * fv
    txt = f"Quantity({a['x']!r}+-{a['e']!r},{tu!r}) {op} Quantity({b['x']!r}+-{b['e']!r},{tv!r})"
    if op == "to":
        r = qa.to(qb)
        err = r.abse()
        if ea is None and eb is None:
            if err is not None:
                return v.fail("exact-not-exact", f"{txt}: error {err!r}")
            return v.label("exact_operands")
        if err is None:
            return v.fail("error-lost", f"{txt}: result has no error")
        if not _nonneg(err):
            return v.fail("negative-error", f"{txt}: error {err!r}")
        bound = (0 if ea is None else ea / Bb) + (0 if eb is None else Ba * eb / Bb ** 2)
        if eb is None:
            if not _eq(err, bound, 1e-10):
                return v.fail("exact-factor", f"{txt}: error {err!r}, expected e/|k| = {bound!r}")
        elif np.any(eb >= Bb):
            v.label("divisor_interval_reaches_zero_not_compared")      # see known finding C08-K1
        elif not _ge(err, bound * (1 - 1e-10), Ba / Bb):
            return v.fail("first-order", f"{txt}: error {err!r} < first-order bound {bound!r} of the quotient")
        v.nt(True)
        return v.label("to_reference_quantity")
    if op == "ctor":
        r = Quantity(_mk(a), qb)
        op = "*"
        qa = Quantity(_mk(a))
        Ba, ea = _np(a["x"]), (None if a["e"] is None else _err(a))
        txt = f"Quantity({a['x']!r}+-{a['e']!r}, Quantity({b['x']!r}+-{b['e']!r},{tv!r}))"
        v.label("quantity_as_unit")
        if ea is None:
            if eb is None:
                return
            err = r.abse()
            if err is None:
                return v.fail("error-lost", f"{txt}: result has no error")
            ebase = _np(err) * R.factor_of_expression(r.units())
            if not _eq(ebase, np.abs(Ba) * eb, 1e-10):
                return v.fail("exact-factor", f"{txt}: base error {ebase!r}, expected |a|*eb = {np.abs(Ba) * eb!r}")
            v.nt(True)
            return
    else:
        r = qa * qb if op == "*" else qa / qb
    err = r.abse()
    if err is None:
        return v.fail("error-lost", f"{txt}: result has no error")
    if not _nonneg(err):
        return v.fail("negative-error", f"{txt}: error {err!r}")
    ebase = _np(err) * R.factor_of_expression(r.units())
    if eb is None:
        exp = ea * np.abs(Bb) if op == "*" else ea / np.abs(Bb)
        if not _eq(ebase, exp, 1e-10):
            return v.fail("exact-factor", f"{txt}: base error {ebase!r} ({err!r} {r.units()}), expected {exp!r}")
        v.label("qprod_exact")
    elif op == "/" and np.any(eb >= Bb):
        v.label("divisor_interval_reaches_zero_not_compared")          # see known finding C08-K1
    elif np.all(Ba > 0) and np.all(Bb > 0):
        bound = Ba * eb + Bb * ea if op == "*" else ea / Bb + Ba * eb / Bb ** 2
        if not _ge(ebase, bound * (1 - 1e-10), Ba * Bb if op == "*" else Ba / Bb):
            return v.fail("first-order", f"{txt}: base error {ebase!r} ({err!r} {r.units()}) < first-order bound {bound!r}")
        v.label("qprod_first_order")
    v.nt(fu != fv)
    v.label("qprod")


def check_logsum(case, v):
    from scinumtools.units import Quantity
    a, b, u, op = case["a"], case["b"], case["u"], case["op"]
    qa = Quantity(a["x"], u, abse=a["e"]) if a["e"] else Quantity(a["x"], u)
    qb = Quantity(b["x"], u, abse=b["e"]) if b["e"] else Quantity(b["x"], u)
    txt = f"Quantity({a['x']!r}+-{a['e']!r},{u!r}) {op} Quantity({b['x']!r}+-{b['e']!r},{u!r})"
    try:
        r = qa + qb if op == "+" else qa - qb
    except Exception as ex:
        return v.fail("error-lost", f"{txt} raised {ex!r}")
    err = r.abse()
    if not _nonneg(err):
        return v.fail("negative-error", f"{txt}: error {err!r}")
    if a["e"] is None and b["e"] is None:
        if err is not None:
            return v.fail("exact-not-exact", f"{txt}: error {err!r}")
        return v.label("exact_operands")
    exp = (a["e"] or 0.0) + (b["e"] or 0.0)
    if err is None or not _eq(err, exp, 1e-9):
        return v.fail("sum-error", f"{txt}: error {err!r}, expected ea+eb = {exp!r}")
    v.nt(True)
    v.label("logsum" + op)


def check_radconv(case, v):
    from scinumtools.units import Quantity
    a = case["a"]
    f = 1e3 if case["v"] == "mrad" else 1.0
    q = Quantity(_mk(a))
    e0, r0 = _np(q.abse()), _np(q.rele())
    q.to(case["v"])
    err = q.abse()
    txt = f"Quantity({a['x']!r}+-{a['e']!r}).to({case['v']!r})"
    if err is None:
        return v.fail("error-lost", f"{txt} lost its error")
    if not _nonneg(err):
        return v.fail("negative-error", f"{txt}: error {err!r}")
    if not _eq(err, e0 * f):
        return v.fail("conversion-error", f"{txt}: abse {err!r}, expected {e0 * f!r} (value scaled by {f})")
    if not _eq(q.rele(), r0, 1e-10):
        return v.fail("conversion-rele", f"{txt}: relative error changed from {r0!r} to {q.rele()!r}")
    v.nt(f != 1.0)
    v.label("number_to_" + case["v"])


def _k_divisor_reaches_zero(case, kind, detail):
    """quotient of two uncertain positive values whose divisor is uncertain by >= 100 %: the library reports the larger
    deviation of the two interval corners (a+da)/(b-db), (a-da)/(b+db), which can be below the first-order estimate.
    Matches only that very number; any other error on such an input is a fresh violation."""
    import re
    if kind != "first-order" or case.get("kind") != "mag" or case.get("op") != "/":
        return False
    a, b = case["a"], (case["a"] if case.get("self") else case["b"])
    if a["e"] is None or b["e"] is None:
        return False
    xa, xb, ea, eb = _np(a["x"]), _np(b["x"]), _err(a), _err(b)
    if not (np.all(xa > 0) and np.all(xb > 0) and np.any(eb >= xb)):
        return False
    m = re.search(r"reported_max=([-+0-9.einfa]+)\]", detail)
    if not m:
        return False
    with np.errstate(all="ignore"):
        val = xa / xb
        corner = float(np.max([np.abs((xa + ea) / (xb - eb) - val), np.abs((xa - ea) / (xb + eb) - val)]))
    return close(float(m.group(1)), corner, 1e-12, 0.0)


KNOWN = {"C08-K1": _k_divisor_reaches_zero}


def check(case):
    v = Verdict()
    try:
        with np.errstate(all="ignore"):
            {"mag": check_mag, "exact": check_exact, "decimal_exact": check_decimal_exact, "pow": check_pow, "rele": check_rele,
             "conv": check_conv, "qsum": check_qsum, "logsum": check_logsum, "radconv": check_radconv, "qprod": check_qprod, "custom_conv": check_custom_conv}[case["kind"]](case, v)
    finally:
        if not R.tables_pristine():
            R.restore_tables()
    return v
