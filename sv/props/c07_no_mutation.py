"""C07 — operations on quantities never alter their operands."""
import copy
from decimal import Decimal

import numpy as np
from hypothesis import strategies as st

from ..core import Verdict
from ..refs import units_ref as R
from ..refs import unit_gens as G

ID = "C07"
RULE = (
    'One case = an operation (+ - * / ** neg == value(unit); ufuncs sqrt cbrt power sin cos tan arcsin arccos '
    'arctan isnan; functions abs round floor ceil sum linspace logspace) on operands drawn from: same unit, same '
    'dimension other unit (random unit expressions), dB/B/Np-type levels, Decimal magnitudes mixed with float, '
    'arrays, with/without uncertainty, angles in deg/mrad, plain numbers, bare numbers brought into cm/m-type '
    'quotients by to(), the operand itself or -a / a+a as the other operand, augmented assignments (+= -= *= /=) '
    'on a second reference; followed by up to 5 in-place calls (to(unit), rebase(), abse(e), rele(r)) on the '
    'result or on an operand. Oracle: value/units/abse snapshot of every operand taken before the operation must '
    'be reported unchanged after it (returned or raised), and after every in-place call on object X every OTHER '
    'object (operands and result) must report its snapshot. Non-trivial: operands in different units, or '
    'logarithmic units, or Decimal mixed with float, or an angle function on non-radian input, and the operation '
    'did not raise. Round 4: temperature operands (K, Cel, degF, degR arrays); a query answered once, then again '
    'after an unrelated Decimal quantity used the same unit strings. Later rounds: zero operands in another unit; '
    'slices sharing their buffer (getitem followed by a write into one side); the identity power. Rounds 7-8: '
    'level operands under the other prefix; number types of magnitude and unit factor in the snapshot; read-only '
    'queries after the operation; follow-ups toq (target quantity only read) and peek (answer overwritten, asked '
    'again); equal but separately built quantities. Round 10: two quantities built from one Magnitude object (every unit form of the constructor), then an in-place call on one. Distinct = distinct case JSON.'
)
ASSUMPTIONS = [
    "the snapshot holds the number types of the magnitude and of the unit factor as well: a float operand that comes back as "
    "a Decimal one IS counted as altered (it was not until the round-8 report showed what follows from it: f**0.5 raises)",
    "values compared exactly (NaN equals NaN); units compared as the rendered string; abse compared exactly",
]
NT_FLOOR = 0.3

LOGU = ["dB", "B", "dBm", "dBmW", "dBW", "dBV", "dBuV", "dBA", "dBSPL", "Np", "dNp"]
ANGLE = ["deg", "mrad", "rad", "'"]
BIN = ["+", "-", "*", "/", "=="]
UFUNC1 = ["sqrt", "cbrt", "sin", "cos", "tan", "arcsin", "arccos", "arctan", "isnan", "abs", "absolute", "round", "floor",
          "ceil", "sum"]
small = st.one_of(st.floats(0.1, 100.0), st.integers(1, 50).map(float), st.sampled_from([1.0, 2.0, 30.0, 0.5]))


@st.composite
def operand(draw, unit_tree=None, unit_text=None, allow_dec=True, array=None, values=small):
    is_arr = draw(st.integers(0, 3)) == 0 if array is None else array
    x = draw(st.lists(values, min_size=1, max_size=3)) if is_arr else draw(values)
    dec = (not is_arr) and allow_dec and draw(st.integers(0, 4)) == 0
    e = None
    if not dec and draw(st.integers(0, 2)) == 0:
        e = draw(st.floats(0.001, 0.05)) * (min(abs(v) for v in x) if is_arr else abs(x))
    u = unit_text if unit_text is not None else (R.render(unit_tree) if unit_tree is not None else None)
    return {"x": x, "u": u, "e": e, "dec": dec}


@st.composite
def follow_ups(draw, units_a, units_r):
    n = draw(st.integers(0, 5))
    out = []
    for _ in range(n):
        target = draw(st.sampled_from(["r", "a", "b"]))
        kind = draw(st.sampled_from(["to", "to", "rebase", "abse", "rele", "toq", "peek"]))
        if kind == "toq":
            # converted into the units of another object, handed over as a Quantity: that object is only read
            out.append([target, "toq", draw(st.sampled_from([t for t in ("r", "a", "b") if t != target]))])
        elif kind == "peek":
            # a read-only query whose answer the caller then overwrites: the quantity keeps its numbers
            pool = units_r if target == "r" else units_a
            out.append([target, "peek", draw(st.sampled_from(pool)) if pool else None])
        elif kind == "to":
            pool = units_r if target == "r" else units_a
            out.append([target, "to", draw(st.sampled_from(pool)) if pool else None])
        elif kind == "abse":
            out.append([target, "abse", draw(st.floats(0.001, 2.0))])
        elif kind == "rele":
            out.append([target, "rele", draw(st.floats(0.1, 20.0))])
        else:
            out.append([target, "rebase", None])
    return out


@st.composite
def binary_case(draw):
    cls = draw(st.sampled_from(["same_unit", "other_unit", "other_unit", "log", "decimal", "number", "other_dim", "prepared",
                                "temperature"]))
    op = draw(st.sampled_from(BIN))
    if cls == "temperature":
        tu = ["K", "Cel", "degF", "degR", "mK"]
        arr = draw(st.booleans())
        tv = st.floats(250.0, 400.0)
        a = draw(operand(unit_text=draw(st.sampled_from(tu)), allow_dec=False, array=arr, values=tv))
        b = draw(operand(unit_text=draw(st.sampled_from(tu)), allow_dec=False, array=arr, values=tv))
        op = draw(st.sampled_from(["+", "-", "==", "=="]))
        alts = ["K", "Cel", "degF"]
    elif cls == "prepared":
        prep = lambda: {"x": draw(st.floats(0.01, 0.99)), "u": None, "e": None, "dec": False,
                        "prep": draw(st.sampled_from(["cm/m", "m/km", "mm/m", "s/ms"]))}
        a = prep() if draw(st.booleans()) else draw(operand(unit_text=draw(st.sampled_from([None, "%"])), allow_dec=False, array=False))
        b = prep()
        alts = ["%", "cm/m", "ppth"]
    elif cls == "log":
        u = draw(st.sampled_from(LOGU))
        a = draw(operand(unit_text=u, allow_dec=False))
        # the right operand in the same unit, in the same unit under the other prefix (dBm + Bm), or in another level unit
        other_prefix = ("B" + u[2:]) if u.startswith("dB") else ("dB" + u[1:]) if u.startswith("B") else {"Np": "dNp", "dNp": "Np"}[u]
        ub = draw(st.sampled_from([u, u, other_prefix, other_prefix, draw(st.sampled_from(LOGU))]))
        b = draw(operand(unit_text=ub, allow_dec=False, array=isinstance(a["x"], list)))
        alts = [u]
    else:
        dim = draw(st.sampled_from(G.DIMS))
        ut = draw(G.expr_of_dim(dim))
        a = draw(operand(unit_tree=ut))
        if cls == "same_unit":
            vt = ut
        elif cls == "other_dim":
            vt = draw(G.expr_of_dim(draw(st.sampled_from(G.DIMS))))
        else:
            vt = draw(G.expr_of_dim(dim))
        if cls == "number":
            b = {"x": draw(st.one_of(small, st.sampled_from([1.0, 0.0, -1.0, 1, 0, 2]))), "u": None, "e": None, "dec": False, "plain": True}
        else:
            b = draw(operand(unit_tree=vt, array=isinstance(a["x"], list) and draw(st.booleans())))
            if cls == "other_unit" and draw(st.integers(0, 3)) == 0:
                # an operand that is (or contains) an exact zero, in another unit
                b["x"] = [0.0 if i == 0 else x_ for i, x_ in enumerate(b["x"])] if isinstance(b["x"], list) else 0.0
                b["e"] = None if b["e"] is None else 0.25
                op = draw(st.sampled_from(["==", "==", "+", "-"]))
        if cls == "decimal":
            a["dec"] = not isinstance(a["x"], list)
            if a["dec"]:
                a["e"] = None
        alts = [R.render(draw(G.expr_of_dim(dim))) for _ in range(2)]
    if isinstance(a["x"], list) and isinstance(b["x"], list) and len(a["x"]) != len(b["x"]):
        b["x"] = b["x"][0]
    fu = draw(follow_ups(alts, alts))
    # the other operand may be the operand itself or derived from it (results inherit internals of their operands);
    # the operator may be spelt as an augmented assignment on a second reference
    derive = draw(st.sampled_from([None, None, None, "same", "neg", "twice", "equal"])) if cls in ("log", "same_unit", "other_unit") else None
    if derive == "equal" and alts:
        # a second, separate quantity with the same number, uncertainty and units; both are then converted to the same
        # unit and one of them is given another uncertainty: two objects, never one shared magnitude
        u_ = draw(st.sampled_from(alts))
        fu = [["a", "to", u_], ["b", "to", u_], ["a", draw(st.sampled_from(["abse", "rele"])), 0.5], ["b", "to", alts[0]], ["b", "abse", 0.125]]
    aug = op != "==" and draw(st.integers(0, 4)) == 0
    return {"kind": "binary", "cls": cls, "op": op, "a": a, "b": b, "swap": draw(st.booleans()), "follow": fu,
            "derive": derive, "aug": aug}


@st.composite
def unary_case(draw):
    fn = draw(st.sampled_from(UFUNC1 + ["neg", "pow", "power", "value", "value", "value_T", "getitem", "getitem"]))
    if fn == "getitem":
        # a slice / element of an array quantity is a new quantity: writing into the numbers of one does not show in the other
        dim = draw(st.sampled_from(G.DIMS))
        a = draw(operand(unit_tree=draw(G.expr_of_dim(dim)), allow_dec=False, array=True))
        a["x"] = (a["x"] + [7.0, 8.0, 9.0])[:max(3, len(a["x"]))]
        if isinstance(a["e"], float):
            pass
        alts = [R.render(draw(G.expr_of_dim(dim))) for _ in range(2)]
        return {"kind": "unary", "fn": "getitem", "a": a, "arg": draw(st.sampled_from(["1:3", "2:", ":", "0", "::2"])),
                "follow": draw(follow_ups(alts, alts)), "alts": alts, "poke": draw(st.sampled_from(["result", "operand"]))}
    if fn == "value_T":
        # a query of a temperature (array) in another scale
        a = draw(operand(unit_text=draw(st.sampled_from(["K", "Cel", "degF", "degR"])), allow_dec=False,
                         values=st.floats(250.0, 400.0)))
        alts = ["Cel", "K", "degF"]
        return {"kind": "unary", "fn": "value", "a": a, "arg": draw(st.sampled_from(alts)),
                "follow": draw(follow_ups(alts, [])), "alts": alts, "dec_prelude": draw(st.booleans())}
    if fn in ("sin", "cos", "tan"):
        u = draw(st.sampled_from(ANGLE + ["deg", "deg"]))
        a = draw(operand(unit_text=u, allow_dec=False, values=st.floats(-90, 90) | st.sampled_from([30.0, 45.0, 60.0])))
        alts = ["rad", "deg", "mrad"]
    elif fn in ("arcsin", "arccos", "arctan"):
        a = draw(operand(unit_text=draw(st.sampled_from(["%", "ppth", None])), allow_dec=False, values=st.floats(0.01, 0.99)))
        if draw(st.integers(0, 2)) == 0:
            a = {"x": draw(st.floats(0.01, 0.99)), "u": None, "e": None, "dec": False,
                 "prep": draw(st.sampled_from(["cm/m", "m/km", "mm/m"]))}
        alts = ["%", "ppth"]
    else:
        dim = draw(st.sampled_from(G.DIMS))
        ut = draw(G.expr_of_dim(dim))
        a = draw(operand(unit_tree=ut, allow_dec=fn in ("neg", "value", "pow")))
        alts = [R.render(draw(G.expr_of_dim(dim))) for _ in range(2)]
    arg = None
    if fn in ("pow", "power"):
        arg = draw(st.sampled_from([2, 3, -1, 0.5, 1.5, 1, 1.0, 0, [2, 2], [1, 2], -2]))
        if isinstance(arg, list):
            arg = list(arg)
    if fn == "value":
        arg = alts[0]
    return {"kind": "unary", "fn": fn, "a": a, "arg": arg, "follow": draw(follow_ups(alts, [])), "alts": alts,
            "dec_prelude": fn == "value" and draw(st.booleans())}


@st.composite
def space_case(draw):
    fn = draw(st.sampled_from(["linspace", "logspace"]))
    dim = draw(st.sampled_from(G.DIMS))
    ut = draw(G.expr_of_dim(dim))
    vt = draw(G.expr_of_dim(dim))
    vals = st.floats(0.1, 5.0)
    a = draw(operand(unit_tree=ut, allow_dec=False, array=False, values=vals))
    b = draw(operand(unit_tree=vt, allow_dec=False, array=False, values=vals))
    form = draw(st.sampled_from(["qq", "qq", "qn", "nq"]))
    alts = [R.render(draw(G.expr_of_dim(dim))) for _ in range(2)]
    return {"kind": "space", "fn": fn, "a": a, "b": b, "form": form, "n": draw(st.integers(2, 5)),
            "follow": draw(follow_ups(alts, alts))}


@st.composite
def identity_case(draw):
    """neutral elements (a+0, 0+a, a-0, a*1, 1*a, a/1): a result that is 'the same quantity' must still be a new object"""
    dim = draw(st.sampled_from(G.DIMS))
    ut = draw(G.expr_of_dim(dim))
    a = draw(operand(unit_tree=ut))
    op, num, swap = draw(st.sampled_from([("+", 0, False), ("+", 0.0, True), ("-", 0, False), ("*", 1, False), ("*", 1.0, True),
                                          ("/", 1, False), ("+", 0.0, False), ("*", 1, True)]))
    alts = [R.render(draw(G.expr_of_dim(dim))) for _ in range(2)]
    first = ["r", draw(st.sampled_from(["to", "abse", "rele", "rebase"])), None]
    first[2] = {"to": alts[0], "abse": 0.5, "rele": 5.0, "rebase": None}[first[1]]
    if draw(st.integers(0, 3)) == 0:
        # the identity exponent: q**1 / np.power(q, 1.0) is still a new quantity
        if first[1] == "to":
            first = ["r", "abse", 0.5]
        return {"kind": "unary", "fn": draw(st.sampled_from(["pow", "power"])), "a": a, "arg": draw(st.sampled_from([1, 1.0])),
                "follow": [first] + draw(follow_ups(alts, [])), "alts": alts}
    return {"kind": "binary", "cls": "number", "op": op, "a": a,
            "b": {"x": num, "u": None, "e": None, "dec": False, "plain": True}, "swap": swap,
            "follow": [first] + draw(follow_ups(alts, alts))}


@st.composite
def ctor_case(draw):
    """two quantities built from ONE Magnitude object (a documented constructor argument): each has its own number"""
    return {"kind": "ctor", "x": draw(st.sampled_from([12.0, 2.5, [1.0, 2.0, 4.0]])), "e": draw(st.sampled_from([None, 0.2, 0.01])),
            "uform": draw(st.sampled_from(["dict", "baseunits", "quantity", "none", "string"])),
            "uform_b": draw(st.sampled_from(["dict", "baseunits", "quantity", "none", "string"])),
            "follow": draw(st.sampled_from(["abse", "rele", "to", "ctor_abse", "ctor_rele", "abse_on_first"]))}


def strategies(tier):
    return {"ctor_shared_magnitude": (ctor_case(), 200, 3000), "identity": (identity_case(), 600, 12000), "binary": (binary_case(), 2500, 60000), "unary": (unary_case(), 2000, 40000),
            "space": (space_case(), 500, 10000)}


# --------------------------------------------------------------------------- oracle

def _mk(o):
    from scinumtools.units import Quantity
    x = o["x"]
    if o.get("plain"):
        return x
    if o["dec"]:
        x = Decimal(str(x))
    if o.get("prep"):
        # a bare number brought into a dimensionless quotient of dimensional units by the explicit in-place to()
        q = Quantity(x)
        q.to(o["prep"])
        return q
    return Quantity(x, o["u"], abse=o["e"])


def _canon_val(v):
    if v is None:
        return None
    if isinstance(v, np.ndarray):
        return ("arr", tuple(v.shape), tuple(np.asarray(v, dtype=float).ravel().tolist()))
    if isinstance(v, Decimal):
        return ("num", v)
    return ("num", float(v))


def _same(a, b):
    if a is None or b is None:
        return a is b
    if a[0] != b[0]:
        return False
    if a[0] == "arr":
        return a[1] == b[1] and all((x == y) or (x != x and y != y) for x, y in zip(a[2], b[2]))
    x, y = a[1], b[1]
    try:
        return bool(x == y) or (x != x and y != y)
    except Exception:
        return False


def snap(q):
    from scinumtools.units import Quantity
    if not isinstance(q, Quantity):
        return ("plain", copy.deepcopy(q))
    # units as reported AND the exponents behind them (repr of the base units): the rendered string is cached
    # ... and the number types of the magnitude and of the unit factor (a float quantity must not turn into a Decimal one)
    return (_canon_val(copy.deepcopy(q.value())),
            (q.units(), repr(q.baseunits), type(q.magnitude.value).__name__, type(q.baseunits.magnitude).__name__),
            _canon_val(copy.deepcopy(q.abse())))


def diff(before, q):
    now = snap(q)
    if before[0] == "plain":
        return None if now == before else f"plain number changed {before[1]!r} -> {now[1]!r}"
    out = []
    if not _same(before[0], now[0]):
        out.append(f"value {before[0]!r} -> {now[0]!r}")
    if before[1] != now[1]:
        out.append(f"units {before[1]!r} -> {now[1]!r}")
    if not _same(before[2], now[2]):
        out.append(f"abse {before[2]!r} -> {now[2]!r}")
    return "; ".join(out) if out else None


def _describe(o):
    if o.get("plain"):
        return repr(o["x"])
    x = f"Decimal('{o['x']}')" if o["dec"] else repr(o["x"])
    if o.get("prep"):
        return f"Quantity({x}).to({o['prep']!r})"
    return f"Quantity({x},{o['u']!r}{'' if o['e'] is None else ',abse=%r' % o['e']})"


def _apply_follow(v, follow, objs, names, text):
    """objs: dict name -> Quantity (or None). After each in-place call on X all others must be unchanged."""
    from scinumtools.units import Quantity
    for target, kind, arg in follow:
        X = objs.get(target)
        if not isinstance(X, Quantity):
            continue
        others = {k: snap(o) for k, o in objs.items() if k != target and isinstance(o, Quantity)}
        mine = snap(X)
        try:
            if kind == "to":
                if arg is None:
                    continue
                X.to(arg)
            elif kind == "toq":
                if not isinstance(objs.get(arg), Quantity):
                    continue
                X.to(objs[arg])
            elif kind == "peek":
                if arg is None:
                    continue
                first = X.value(arg)
                keep = copy.deepcopy(first)
                if isinstance(first, np.ndarray) and first.flags.writeable:
                    first[...] = 0
                again = X.value(arg)
                if not _same(_canon_val(keep), _canon_val(copy.deepcopy(again))) or snap(X) != mine and diff(mine, X):
                    return v.fail("query-not-read-only", f"{text}; then {names[target]}.value({arg!r}) = {keep!r}, the caller "
                                                         f"zeroes that array, the same query now gives {again!r} "
                                                         f"({diff(mine, X) or 'quantity itself unchanged'})")
            elif kind == "rebase":
                X.rebase()
            elif kind == "abse":
                X.abse(arg)
                if X.abse() is None or not np.all(np.asarray(X.abse(), dtype=float) == arg):
                    return v.fail("inplace-abse", f"{text}; then {names[target]}.abse({arg}) reports {X.abse()!r}")
                now = snap(X)
                if not _same(mine[0], now[0]) or mine[1] != now[1]:
                    return v.fail("inplace-abse", f"{text}; {names[target]}.abse({arg}) changed value/units")
            elif kind == "rele":
                X.rele(arg)
                now = snap(X)
                if not _same(mine[0], now[0]) or mine[1] != now[1]:
                    return v.fail("inplace-rele", f"{text}; {names[target]}.rele({arg}) changed value/units")
        except Exception:
            pass  # a refused in-place call (e.g. to() of another dimension) must still leave the others alone
        for k, s in others.items():
            d = diff(s, objs[k])
            if d:
                return v.fail("shared-state", f"{text}; then {names[target]}.{kind}({arg!r}) changed {names[k]}: {d}")
        v.label("follow_" + kind)


def check_binary(case, v):
    from scinumtools.units import Quantity
    a_spec, b_spec, op = case["a"], case["b"], case["op"]
    A, B = _mk(a_spec), _mk(b_spec)
    bdesc = _describe(b_spec)
    derive = case.get("derive")
    if derive:
        try:
            B = {"same": lambda: A, "neg": lambda: -A, "twice": lambda: A + A, "equal": lambda: _mk(a_spec)}[derive]()
        except Exception:
            return v.discard("derived-operand-not-defined")
        bdesc = {"same": "a", "neg": "(-a)", "twice": "(a + a)", "equal": "(an equal quantity built separately)"}[derive] + " [a = " + _describe(a_spec) + "]"
    left, right = (B, A) if case["swap"] else (A, B)
    lt, rt = (bdesc, _describe(a_spec)) if case["swap"] else (_describe(a_spec), bdesc)
    aug = bool(case.get("aug"))
    text = f"{lt} {op}{'=' if aug else ''} {rt}" + (" (augmented assignment on a second reference to the left operand)" if aug else "")
    sa, sb = snap(A), snap(B)
    raised = False
    r = None
    try:
        if aug:
            import operator
            r = {"+": operator.iadd, "-": operator.isub, "*": operator.imul, "/": operator.itruediv}[op](left, right)
        elif op == "+":
            r = left + right
        elif op == "-":
            r = left - right
        elif op == "*":
            r = left * right
        elif op == "/":
            r = left / right
        else:
            r = left == right
    except Exception:
        raised = True
    # read-only queries afterwards (each operand reported in the other's units) belong to "reporting": they must not
    # change anything either
    for o, other in ((A, B), (B, A)):
        if isinstance(o, Quantity) and isinstance(other, Quantity):
            try:
                o.value(other.units())
            except Exception:
                pass
    for name, s, o in (("left" if not case["swap"] else "right", sa, A), ("right" if not case["swap"] else "left", sb, B)):
        d = diff(s, o)
        if d:
            return v.fail("operand-changed", f"{text}{' (raised)' if raised else ''} altered the {name} operand: {d}")
    objs = {"a": A, "b": B if B is not A else None, "r": r if isinstance(r, Quantity) else None}
    names = {"a": "operand", "b": "other operand", "r": "result"}
    _apply_follow(v, case["follow"], objs, names, text)
    if v.violations:
        return
    au, bu = a_spec["u"], b_spec.get("u")
    interesting = (case["cls"] in ("other_unit", "log", "decimal") or (au != bu and not b_spec.get("plain")))
    v.nt(interesting and not raised)
    v.label("bin" + op, case["cls"], "raised" if raised else "returned")
    if a_spec["dec"] or b_spec.get("dec"):
        v.label("decimal")
    if derive:
        v.label("derived_operand_" + derive)
    if aug:
        v.label("augmented_assignment")
    if a_spec.get("prep") or b_spec.get("prep"):
        v.label("prepared_quotient_operand")


def check_unary(case, v):
    from scinumtools.units import Quantity
    a_spec, fn, arg = case["a"], case["fn"], case["arg"]
    A = _mk(a_spec)
    text = f"{fn}({_describe(a_spec)}{'' if arg is None else ', %r' % (arg,)})"
    ref = None
    if case.get("dec_prelude") and fn == "value":
        # the same query on an equal, separate object first; then an unrelated Decimal quantity is queried with the
        # same unit strings; the operand's own query afterwards must answer the same
        try:
            ref = ("ok", _canon_val(copy.deepcopy(_mk(a_spec).value(arg))))
        except Exception as e:
            ref = ("raised", type(e).__name__)
        try:
            d = Quantity(Decimal("2.5"), a_spec["u"])
            d.value(arg)
            Quantity(Decimal("1.5"), a_spec["u"]).to(arg)
        except Exception:
            pass
        text += " [after a Decimal quantity was queried with the same unit strings]"
    sa = snap(A)
    raised = False
    r = None
    try:
        if fn == "neg":
            r = -A
        elif fn == "pow":
            r = A ** (tuple(arg) if isinstance(arg, list) else arg)
        elif fn == "power":
            r = np.power(A, arg if not isinstance(arg, list) else arg[0] / arg[1])
        elif fn == "getitem":
            key = int(arg) if ":" not in arg else slice(*[(int(t) if t else None) for t in arg.split(":")])
            r = A[key]
        elif fn == "value":
            r = A.value(arg)
        else:
            r = getattr(np, fn)(A)
    except Exception:
        raised = True
    d = diff(sa, A)
    if d:
        return v.fail("operand-changed", f"{text}{' (raised)' if raised else ''} altered its operand: {d}")
    if fn == "getitem" and not raised and isinstance(r, Quantity):
        # write into the number array one of them hands out: the other must not see it
        src, other, names_ = (r, A, ("result", "operand")) if case.get("poke") == "result" else (A, r, ("operand", "result"))
        before_other = snap(other)
        try:
            arr = src.value()
            if isinstance(arr, np.ndarray) and arr.size:
                arr[...] = arr * 0 + 12345.0
        except Exception:
            pass
        d2 = diff(before_other, other)
        if d2:
            return v.fail("shared-state", f"{text}: after writing into the value array of the {names_[0]}, the {names_[1]} "
                                          f"changed: {d2}")
        A = _mk(a_spec)
        r = A[key]
        sa = snap(A)
        v.label("slice_buffers_independent")
    if ref is not None:
        now = ("raised", None) if raised else ("ok", _canon_val(copy.deepcopy(r)))
        if ref[0] != now[0] or (ref[0] == "ok" and not _same(ref[1], now[1])):
            return v.fail("history-dependent", f"{text}: {now!r}, the same query before that gave {ref!r}")
        v.label("after_decimal_prelude")
    objs = {"a": A, "r": r if isinstance(r, Quantity) else None}
    _apply_follow(v, case["follow"], objs, {"a": "operand", "r": "result"}, text)
    if v.violations:
        return
    v.nt(not raised and ((fn in ("sin", "cos", "tan") and a_spec["u"] != "rad") or a_spec["dec"] or fn == "value"
                         or (isinstance(r, Quantity) and len(case["follow"]) > 0)))
    v.label("fn_" + fn, "raised" if raised else "returned")


def check_space(case, v):
    from scinumtools.units import Quantity
    A, B = _mk(case["a"]), _mk(case["b"])
    form = case["form"]
    if form == "qn":
        B = case["b"]["x"]
    elif form == "nq":
        A = case["a"]["x"]
    text = f"np.{case['fn']}({_describe(case['a']) if form != 'nq' else A!r}, {_describe(case['b']) if form != 'qn' else B!r}, {case['n']})"
    sa, sb = snap(A), snap(B)
    raised = False
    r = None
    try:
        r = getattr(np, case["fn"])(A, B, case["n"])
    except Exception:
        raised = True
    for name, s, o in (("first", sa, A), ("second", sb, B)):
        d = diff(s, o)
        if d:
            return v.fail("operand-changed", f"{text}{' (raised)' if raised else ''} altered the {name} argument: {d}")
    objs = {"a": A, "b": B, "r": r if isinstance(r, Quantity) else None}
    _apply_follow(v, case["follow"], objs, {"a": "first argument", "b": "second argument", "r": "result"}, text)
    if v.violations:
        return
    v.nt(not raised and form == "qq" and case["a"]["u"] != case["b"]["u"])
    v.label(case["fn"], form, "raised" if raised else "returned")


def check_ctor(case, v):
    from scinumtools.units import Quantity, Magnitude, BaseUnits
    m = Magnitude(case["x"], case["e"])

    def units(form):
        return {"dict": lambda: {"m": 1}, "baseunits": lambda: BaseUnits({"m": 1}), "quantity": lambda: Quantity(1, "m"),
                "none": lambda: None, "string": lambda: "m"}[form]()
    a = Quantity(m, units(case["uform"]))
    f = case["follow"]
    kw = {"ctor_abse": {"abse": 0.5}, "ctor_rele": {"rele": 10}}.get(f, {})
    if f == "abse_on_first":
        b = Quantity(m, units(case["uform_b"]))
        before = snap(b)
        a.abse(0.5)
        changed, other, what = diff(before, b), "b", "a.abse(0.5)"
    else:
        before = snap(a)
        b = Quantity(m, units(case["uform_b"]), **kw)
        what = f"b = Quantity(m, ..., {kw})" if kw else {"abse": "b.abse(0.5)", "rele": "b.rele(10)", "to": "b.to('cm')"}[f]
        try:
            if f == "abse":
                b.abse(0.5)
            elif f == "rele":
                b.rele(10)
            elif f == "to":
                if case["uform_b"] == "none":
                    return v.discard("no unit to convert")
                b.to("cm")
        except Exception as ex:
            return v.discard("follow-up not supported: " + type(ex).__name__)
        changed, other = diff(before, a), "a"
    if changed:
        return v.fail("shared-state", f"m = Magnitude({case['x']!r}, {case['e']!r}); a = Quantity(m, <{case['uform']}>); "
                                      f"b = Quantity(m, <{case['uform_b']}>); {what} changed {other}: {changed}")
    v.nt(True)
    v.label("two_quantities_from_one_Magnitude", "ctor_follow_" + f)


def check(case):
    v = Verdict()
    try:
        with np.errstate(all="ignore"):
            {"ctor": check_ctor, "binary": check_binary, "unary": check_unary, "space": check_space}[case["kind"]](case, v)
    finally:
        if not R.tables_pristine():
            R.restore_tables()
    return v
