"""C05 — temperature and logarithmic conversions follow their formulas and invert."""
import math

import numpy as np
from hypothesis import strategies as st

from ..core import Verdict, close
from ..refs import units_ref as R

ID = "C05"
RULE = (
    'The finite set of unit pairs is enumerated completely in every run with a fixed ladder of magnitudes (all '
    '24x24 ordered pairs of {K with every prefix, Cel, degF, degR}; {B,dB,Np,cNp,dNp} among themselves and with '
    'PR, AR; every Bx/dBx with its linear counterpart under every admissible prefix; the dB<->dB pairs of the '
    'table; every unit with itself), and the same pairs are sampled by Hypothesis with random magnitudes (T in '
    '[0,1e9] K, levels in [-300,300] dB). Oracle: formulas written from the definitions (affine temperature '
    'scales; k*log10(x/ref), k=10 power-like / 20 amplitude-like, references 1 mW, 1 W, 1 V, 1 uV, 1 A, 1 uA, 1 '
    'Ohm, 20 uPa, 1e-12 W/m2, 1e-12 W; Np=ln(AR)=ln(PR)/2). Checks: formula, u->v->u == x, u->u == x, a(+/-)b == '
    '10log10(10^(a/10)(+/-)10^(b/10)) dB for every bel/decibel-type unit, also with the right operand written '
    'with the other prefix (dBm + Bm); conversions of quantities that carry an uncertainty give the same value. '
    'Non-trivial: u != v, or identity on an offset/logarithmic unit, with x not in {0,1}. Round 4: q + q and (a + '
    'b) - a on levels. Later rounds: the same inputs as ONE array (list, float64, float32) against the scalar '
    'answers; sums with mixed prefixes; linear units into compound logarithmic targets (/cm2, /kHz); augmented += '
    'and -= on levels. Round 8: value / to / value on one object answers for the units it has at that moment. '
    'Round 10: an array-valued quantity is asked twice and read in its own unit afterwards. Distinct = distinct case JSON.'
)
ASSUMPTIONS = [
    "dBx<->dBy pairs the documentation does not promise (e.g. dBuA->dBA) are not demanded",
    "temperatures are compared in kelvin with tolerance 1e-11*max(T,500 K); levels with 1e-9 relative + 1e-9 absolute",
    "level differences a-b >= 0.1 dB in subtraction (below that the power difference cancels catastrophically)",
]
NT_FLOOR = 0.5
EXTRA_COVERAGE = {"exhaustive_subdomains": ["all ordered temperature unit pairs", "all documented logarithmic/linear pairs with prefixes",
                                            "identity on every temperature and logarithmic unit"]}

PREF = R.PREFIX

# --------------------------------------------------------------------------- temperature reference (from the definitions)
TEMP_UNITS = [p + "K" for p in [""] + R.PREFIX_ORDER] + ["Cel", "degF", "degR"]


def to_kelvin(x, u):
    if u == "Cel":
        return x + 273.15
    if u == "degF":
        return (x - 32.0) * 5.0 / 9.0 + 273.15
    if u == "degR":
        return x * 5.0 / 9.0
    return x * (PREF[u[:-1]] if len(u) > 1 else 1.0)


def from_kelvin(t, u):
    if u == "Cel":
        return t - 273.15
    if u == "degF":
        return (t - 273.15) * 9.0 / 5.0 + 32.0
    if u == "degR":
        return t * 9.0 / 5.0
    return t / (PREF[u[:-1]] if len(u) > 1 else 1.0)


# --------------------------------------------------------------------------- logarithmic reference
# unit -> (k, linear SI unit, reference in that SI unit)
LOGDEF = {
    "Bm": (10, "W", 1e-3), "BmW": (10, "W", 1e-3), "BW": (10, "W", 1.0),
    "BV": (20, "V", 1.0), "BuV": (20, "V", 1e-6), "BA": (20, "A", 1.0), "BuA": (20, "A", 1e-6),
    "BOhm": (20, "Ohm", 1.0), "BSPL": (20, "Pa", 20e-6), "BSIL": (10, "W/m2", 1e-12), "BSWL": (10, "W", 1e-12),
}
SAME_DB = {("BW", "Bm"): 30.0, ("Bm", "BW"): -30.0, ("BW", "BmW"): 30.0, ("BmW", "BW"): -30.0,
           ("Bm", "BmW"): 0.0, ("BmW", "Bm"): 0.0, ("BV", "BuV"): 120.0, ("BuV", "BV"): -120.0}
BEL_UNITS = ["B"] + list(LOGDEF)          # each with prefix '' or 'd'
RATIO_LOG = ["B", "dB", "Np", "cNp", "dNp"]


def level_to_db(x, u):
    """level x given in unit u (B/dB family or Np family) -> decibel"""
    if u.endswith("Np"):
        f = {"": 1.0, "c": 1e-2, "d": 1e-1}[u[:-2]]
        return x * f * 20.0 / math.log(10.0)
    return x if u.startswith("d") else x * 10.0


def db_to_level(db, u):
    if u.endswith("Np"):
        f = {"": 1.0, "c": 1e-2, "d": 1e-1}[u[:-2]]
        return db * math.log(10.0) / 20.0 / f
    return db if u.startswith("d") else db / 10.0


def lin_units(base):
    """linear counterpart with every admissible prefix on its first unit"""
    first = base.split("/")[0]
    rest = base[len(first):]
    out = [(p + first + rest, (PREF[p] if p else 1.0)) for p in [""] + R.UNITS[first].prefixes]
    if rest == "/m2":
        # the same quantity per another area: the factor of the second unit belongs inside the logarithm too
        out += [(first + "/cm2", 1e4), (first + "/mm2", 1e6), ("m" + first + "/cm2", 10.0), (first + "/km2", 1e-6)]
    return out


def build_pairs():
    pairs = []
    for u in TEMP_UNITS:
        for w in TEMP_UNITS:
            pairs.append(("temp", u, w))
    for u in RATIO_LOG:
        for w in RATIO_LOG:
            pairs.append(("loglog", u, w))
        for r in ("PR", "AR"):
            pairs.append(("log2ratio", u, r))
            pairs.append(("ratio2log", r, u))
    for b, (k, lin, ref) in LOGDEF.items():
        for pl in ("", "d"):
            lu = pl + b
            pairs.append(("loglog", lu, lu))
            pairs.append(("loglog", lu, ("d" if not pl else "") + b))
            for text, f in lin_units(lin):
                pairs.append(("log2lin", lu, text))
                pairs.append(("lin2log", text, lu))
            if lin == "W":
                # the documented fraction form: a spectral density such as dBmW/Hz <-> W/Hz
                for text, f in lin_units(lin)[:4]:
                    pairs.append(("log2lin", lu + "/Hz", text + "/Hz"))
                    pairs.append(("lin2log", text + "/Hz", lu + "/Hz"))
    for (a, b), off in SAME_DB.items():
        for pa in ("", "d"):
            for pb in ("", "d"):
                pairs.append(("loglog", pa + a, pb + b))
    for b in BEL_UNITS:
        for pl in ("", "d"):
            pairs.append(("sum", pl + b, "+"))
            pairs.append(("sum", pl + b, "-"))
            # the right operand written with the other prefix (20 dBm + 2 Bm): converted before the powers are added
            pairs.append(("sum2", pl + b, "+"))
            pairs.append(("sum2", pl + b, "-"))
    # de-duplicate, keep order
    seen, out = set(), []
    for p in pairs:
        if p not in seen:
            seen.add(p)
            out.append(p)
    return out


PAIRS = build_pairs()
LADDER_T = [0.0, 4.2, 255.3722222222222, 273.15, 300.0, 5778.0, 1.0e9]
LADDER_DB = [-300.0, -47.5, -3.0, 0.0, 1.0, 10.0, 39.0, 120.0, 300.0]

temps = st.one_of(st.floats(0, 1e9), st.floats(0, 1000), st.sampled_from(LADDER_T))
levels = st.one_of(st.floats(-300, 300), st.floats(-30, 30), st.sampled_from(LADDER_DB))


@st.composite
def pair_case(draw):
    i = draw(st.integers(0, len(PAIRS) - 1))
    kind = PAIRS[i][0]
    if kind == "temp":
        vals = draw(st.lists(temps, min_size=1, max_size=3))
    elif kind in ("sum", "sum2"):
        n = draw(st.sampled_from([1, 1, 2, 3]))
        av, bv = [], []
        for _ in range(n):
            a = draw(levels)
            d = draw(st.floats(0.1, 200) | st.sampled_from([0.1, 1.0, 3.0, 4.0]))
            x, y = (a, a - d) if draw(st.booleans()) or PAIRS[i][2] == "-" else (a - d, a)
            av.append(x)
            bv.append(y)
        vals = [av[0], bv[0]] if n == 1 else [av, bv]       # lists = array-valued levels
    else:
        vals = draw(st.lists(levels, min_size=1, max_size=3))
    # an uncertainty attached to the quantity must not move the converted value
    err = draw(st.sampled_from([None, None, None, 0.01, 0.5, 3.0])) if kind not in ("sum", "sum2") else None
    return {"pair": list(PAIRS[i]), "vals": vals, "err": err}


def strategies(tier):
    return {"pairs_random": (pair_case(), 2500, 80000)}


def exhaustive(tier, shard, nshards):
    for i, p in enumerate(PAIRS):
        if i % nshards != shard:
            continue
        if p[0] == "temp":
            yield {"pair": list(p), "vals": LADDER_T}
        elif p[0] in ("sum", "sum2"):
            for a, b in ((1.0, 2.0), (87.0, 83.0), (0.0, -10.0), (30.0, 29.5), (-120.0, -121.0)):
                if p[2] == "+" or a > b:
                    yield {"pair": list(p), "vals": [a, b]}
            yield {"pair": list(p), "vals": [[60.0, 40.5, 10.0], [40.0, 20.0, 3.0]]}
        else:
            yield {"pair": list(p), "vals": LADDER_DB}


# --------------------------------------------------------------------------- oracle

def _nohz(x):
    return x[:-3] if x.endswith("/Hz") else x


def lclose(a, b):
    return close(a, b, 1e-9, 1e-9)


def _array_pass(v, u, w, xs, err):
    """the same inputs as ONE array-valued quantity (list, float64 and float32 ndarray): element i must equal what the
    scalar quantity answers for the number the element holds"""
    from scinumtools.units import Quantity
    if err or not xs:
        return False
    for form in ("list", "float64", "float32"):
        if form == "list":
            arr, held = list(xs), [float(x) for x in xs]
        else:
            arr = np.array(xs, dtype=form)
            held = [float(x) for x in arr]
        if not all(np.isfinite(h) for h in held):
            continue
        try:
            ref = [float(Quantity(h, u).value(w)) for h in held]
        except Exception:
            continue
        for name in ("value", "to"):
            try:
                q = Quantity(arr, u)
                got = q.value(w) if name == "value" else q.to(w).value()
                got = np.atleast_1d(np.asarray(got, dtype=float)).tolist()
            except Exception as e:
                v.fail("array-raised", f"Quantity({form} {xs!r},{u!r}).{name}({w!r}) raised {e!r}")
                return True
            if len(got) != len(ref) or not all(lclose(g, r) or (g != g and r != r) for g, r in zip(got, ref)):
                v.fail("array-value", f"Quantity({form} {xs!r},{u!r}).{name}({w!r}) = {got!r}, the scalar quantities give {ref!r}")
                return True
            if name == "value":
                # the array is only read by the query: asked again it answers the same, and holds what it held
                try:
                    again = np.atleast_1d(np.asarray(q.value(w), dtype=float)).tolist()
                    own = np.atleast_1d(np.asarray(q.value(), dtype=float)).tolist()
                except Exception as e:
                    v.fail("array-raised", f"Quantity({form} {xs!r},{u!r}).value({w!r}) asked a second time raised {e!r}")
                    return True
                if not all(lclose(g, r) or (g != g and r != r) for g, r in zip(again, ref)) or \
                        not all(lclose(g, h) for g, h in zip(own, held)):
                    v.fail("value-repeat", f"q = Quantity({form} {xs!r},{u!r}); q.value({w!r}) = {got!r}, asked again {again!r}; "
                                           f"q.value() = {own!r} afterwards")
                    return True
    v.label("array_forms")
    return False


def _conv(x, u, w, err=None):
    """value(w) asked twice on ONE object (a query must not disturb the next one), then to(w) on that object"""
    from scinumtools.units import Quantity
    q = Quantity(x, u, abse=err) if err else Quantity(x, u)
    first = q.value(w)
    second = q.value(w)
    if not (np.all(np.asarray(first) == np.asarray(second)) or (first != first and second != second)):
        raise RepeatMismatch(f"q=Quantity({x!r},{u!r}); q.value({w!r}) gave {first!r}, asked again {second!r}")
    return second, q.to(w)


class RepeatMismatch(Exception):
    pass


def check(case):
    v = Verdict()
    try:
        _check(case, v)
    finally:
        if not R.tables_pristine():
            R.restore_tables()
    return v


def _requery(x, u, w, near=None):
    """value(w), then the in-place to(w), then value(w) and value(u) again on the same object: every query answers for
    the units the object has at that moment -> None or a description of the disagreement"""
    from scinumtools.units import Quantity
    q = Quantity(x, u)
    a1 = float(q.value(w))
    q.to(w)
    a2, a3 = float(q.value(w)), float(q.value(u))
    near = near or (lambda p_, r_, un: abs(p_ - r_) <= 1e-9 * max(abs(p_), abs(r_)) + 1e-9)
    if not near(a2, a1, w):
        return f"q = Quantity({x!r},{u!r}): q.value({w!r}) = {a1!r}; after q.to({w!r}) the same query gives {a2!r}"
    if not near(a3, x, u):
        return f"q = Quantity({x!r},{u!r}): after q.value({w!r}) and q.to({w!r}), q.value({u!r}) = {a3!r}"
    return None


def _check(case, v):
    from scinumtools.units import Quantity
    kind, u, w = case["pair"]
    v.label(kind)
    if kind == "temp":
        for t in case["vals"]:
            x = from_kelvin(t, u)
            exp_k = t
            tol = 1e-11 * max(t, 500.0)
            try:
                got, q = _conv(x, u, w, case.get("err"))
            except RepeatMismatch as e:
                return v.fail("value-repeat", str(e))
            except Exception as e:
                return v.fail("temp-raised", f"Quantity({x!r},{u!r}) -> {w!r} raised {e!r}")
            for name, g in (("value", got), ("to", q.value())):
                gk = to_kelvin(float(g), w)
                if not abs(gk - exp_k) <= tol:
                    return v.fail("temp-formula", f"Quantity({x!r},{u!r}).{name}({w!r}) = {g!r} (= {gk!r} K), "
                                                  f"expected {from_kelvin(t, w)!r} (= {t!r} K)")
            if q.units() != w:
                return v.fail("temp-units", f"units after to({w!r}) = {q.units()!r}")
            try:
                back = q.to(u)
            except Exception as e:
                return v.fail("temp-raised", f"{u}->{w}->{u} raised {e!r}")
            bk = to_kelvin(float(back.value()), u)
            if not abs(bk - exp_k) <= tol:
                return v.fail("temp-roundtrip", f"{x!r} {u} -> {w} -> {u} = {back.value()!r}")
            if abs(x) < 1e7:
                try:
                    # (temperatures are compared in kelvin with the tolerance of this case)
                    msg = _requery(x, u, w, near=lambda p_, r_, un: abs(to_kelvin(p_, un) - to_kelvin(r_, un)) <= tol)
                except Exception as e:
                    return v.fail("temp-raised", f"value/to/value on one object, {u} and {w}: {e!r}")
                if msg:
                    return v.fail("query-after-conversion", msg)
        if _array_pass(v, u, w, [from_kelvin(t_, u) for t_ in case["vals"]], case.get("err")):
            return
        v.nt(u != w or u in ("Cel", "degF"))
        if u == w:
            v.label("identity")
        return
    if kind in ("sum", "sum2"):
        a, b = case["vals"]
        op = w
        u2 = u if kind == "sum" else (u[1:] if u.startswith("d") else "d" + u)
        if kind == "sum2":
            # b was drawn as a level in unit u: re-express it in the other prefix
            scale = 10.0 if u2.startswith("d") else 0.1
            b = [y * scale for y in b] if isinstance(b, list) else b * scale
        al, bl = (a, b) if isinstance(a, list) else ([a], [b])
        exp = []
        for x, y in zip(al, bl):
            da, db = level_to_db(x, u), level_to_db(y, u2)
            if op == "-" and not da - db >= 0.0999:
                return v.discard("sub-needs-a>b")
            p = 10 ** (da / 10) + 10 ** (db / 10) if op == "+" else 10 ** (da / 10) - 10 ** (db / 10)
            exp.append(db_to_level(10 * math.log10(p), u))
        try:
            r = Quantity(a, u) + Quantity(b, u2) if op == "+" else Quantity(a, u) - Quantity(b, u2)
        except Exception as e:
            return v.fail("sum-raised", f"Quantity({a!r},{u!r}) {op} Quantity({b!r},{u2!r}) raised {e!r}")
        got = np.atleast_1d(np.asarray(r.value(), dtype=float)).tolist()
        if len(got) != len(exp) or (isinstance(a, list)) != isinstance(r.value(), np.ndarray) or \
                not all(close(g, e, 1e-8, 1e-8) for g, e in zip(got, exp)):
            return v.fail("sum-value", f"Quantity({a!r},{u!r}) {op} Quantity({b!r},{u2!r}) = {r.value()!r} {r.units()}, "
                                       f"expected {exp!r} {u}")
        if r.units() != u:
            return v.fail("sum-units", f"result units {r.units()!r} != {u!r}")
        # the augmented spelling is the same operation
        try:
            acc = Quantity(a, u)
            if op == "+":
                acc += Quantity(b, u2)
            else:
                acc -= Quantity(b, u2)
            got2 = np.atleast_1d(np.asarray(acc.value(), dtype=float)).tolist()
        except Exception as e:
            return v.fail("sum-raised", f"q = Quantity({a!r},{u!r}); q {op}= Quantity({b!r},{u2!r}) raised {e!r}")
        if len(got2) != len(exp) or not all(close(g, e, 1e-8, 1e-8) for g, e in zip(got2, exp)):
            return v.fail("sum-value", f"q = Quantity({a!r},{u!r}); q {op}= Quantity({b!r},{u2!r}) gives {acc.value()!r} "
                                       f"{acc.units()}, expected {exp!r} {u}")
        if kind == "sum" and not isinstance(a, list) and abs(level_to_db(a, u)) < 2900 and abs(level_to_db(b, u)) < 2900:
            # (beyond +-2900 dB the linear power is not a normal double: the sum is computed on subnormals)
            # operands that are one object, or derived from one another (results inherit their operand's internals)
            qa, qb = Quantity(a, u), Quantity(b, u)
            twice = qa + qa
            da = level_to_db(a, u)
            want = db_to_level(da + 10 * math.log10(2.0), u)
            if not close(float(twice.value()), want, 1e-8, 1e-8):
                return v.fail("sum-value", f"q = Quantity({a!r},{u!r}); q + q = {twice.value()!r} {twice.units()}, expected {want!r}")
            if op == "+":
                back = (qa + qb) - qa
                if not close(float(back.value()), b, 1e-6, 1e-6) and abs(da - level_to_db(b, u)) < 60:
                    return v.fail("sum-value", f"(a + b) - a = {back.value()!r} {back.units()} for a = {a!r}, b = {b!r} {u}")
            v.label("sum_same_object_and_derived")
        v.nt(True)
        if isinstance(a, list):
            v.label("sum_array")
        if kind == "sum2":
            v.label("sum_mixed_prefix")
        return
    xs_ = []
    for lv in case["vals"]:
        # lv is a level in dB; derive the input x in unit u and the expected output in unit w
        if kind == "loglog":
            x = db_to_level(lv, u)
            bu, bw = u.lstrip("d") if not u.endswith("Np") else "Np", w.lstrip("d") if not w.endswith("Np") else "Np"
            off = 0.0 if bu == bw or {bu, bw} <= {"B", "Np"} else SAME_DB[(bu, bw)]
            exp = db_to_level(lv + off, w)
            inv = lambda y: y
        elif kind in ("log2ratio", "log2lin"):
            x = db_to_level(lv, _nohz(u))
            if kind == "log2ratio":
                exp = 10 ** (lv / (10 if w == "PR" else 20))
            else:
                b = _nohz(u).lstrip("d")
                k, lin, ref = LOGDEF[b]
                pf = dict(lin_units(lin))[_nohz(w)]
                exp = ref * 10 ** (lv / k) / pf
        else:  # ratio2log / lin2log
            if kind == "ratio2log":
                x = 10 ** (lv / (10 if u == "PR" else 20))
            else:
                b = _nohz(w).lstrip("d")
                k, lin, ref = LOGDEF[b]
                pf = dict(lin_units(lin))[_nohz(u)]
                x = ref * 10 ** (lv / k) / pf
            exp = db_to_level(lv, _nohz(w))
        try:
            got, q = _conv(x, u, w, case.get("err"))
        except RepeatMismatch as e:
            return v.fail("value-repeat", str(e))
        except Exception as e:
            return v.fail("log-raised", f"Quantity({x!r},{u!r}) -> {w!r} raised {e!r}")
        for name, g in (("value", got), ("to", q.value())):
            if not lclose(float(g), exp):
                return v.fail("log-formula", f"Quantity({x!r},{u!r}).{name}({w!r}) = {g!r}, expected {exp!r} "
                                             f"(level {lv!r} dB)")
        try:
            back = q.to(u)
        except Exception as e:
            return v.fail("log-raised", f"{u}->{w}->{u} raised {e!r}")
        if not lclose(float(back.value()), x):
            return v.fail("log-roundtrip", f"{x!r} {u} -> {w} -> {u} = {back.value()!r}")
        if 1e-6 < abs(x) < 1e6:
            try:
                msg = _requery(x, u, w)
            except Exception as e:
                msg = None          # (conversions that are refused are judged above)
            if msg:
                return v.fail("query-after-conversion", msg)
        xs_.append(x)
    if _array_pass(v, u, w, xs_, case.get("err")):
        return
    v.nt(any(lv not in (0.0,) for lv in case["vals"]))
    if case.get("err"):
        v.label("with_uncertainty")
    if u == w:
        v.label("identity")
