"""C09 — temporary custom units never outlive their scope."""
import copy

from hypothesis import strategies as st

from ..core import Verdict, close
from ..refs import units_ref as R

ID = "C09"
RULE = (
    'Stateful histories over the REAL process-wide tables, drawn as operation lists: open a UnitEnvironment (1-4 '
    'entries, dict or Quantity form, optional custom conversion class, optional failing entry at position j: '
    'existing symbol, symbol equal to a prefixed table symbol, new unit whose prefixed form clashes, missing '
    "'magnitude'), close the innermost scope or (overlapping lifetimes, strategy 'overlap') the one opened first, "
    'a NumericalSolver used on a parsed environment with and without a with-block, a with-block whose body '
    'raises, a with-block that uses the units, DIP parses with $unit lines that succeed / clash with a table '
    'constant / are followed by a failing statement; nesting <= 4, <= 25 steps. Model: stack of registered rows '
    'on top of the pristine snapshot; whether a registration must fail is decided by an independent duplicate '
    'check. After EVERY step the key order and row contents of UNIT_STANDARD, UNIT_PREFIXES and the list '
    'UNIT_TYPES equal pristine + stack; registered symbols work inside and are unknown outside. Non-trivial: a '
    'registration failing after >=1 success, or a DIP parse that raises with custom units defined, or nesting >= '
    '2. Later rounds: two different custom conversion classes with overlapping lifetimes; data(Format.QUANTITY) '
    'after a parse; a prefixed use of a scoped unit followed by a later scope that defines the symbol '
    'differently; solver variants (with / plain / raising / comparing). Rounds 7-8: registrations interrupted by '
    'a BaseException; units with a NaN magnitude. Distinct = distinct case JSON.'
)
ASSUMPTIONS = [
    "scopes are closed innermost-first (LIFO), single-threaded",
    "the harness restores the tables after recording a violation so that one leak cannot cascade into the next case",
]
NT_FLOOR = 0.3

FRESH = ["x", "xx", "foo", "qq", "zz", "Q", "bar_", "yy", "w", "nu"]
DIMS = [[1, 0, 0, 0, 0, 0, 0, 0], [3, 2, -1, 0, 0, 1, 0, 0], [0, 1, 0, 0, 0, 0, 0, 0], [0, 0, -1, 0, 0, 0, 0, 0],
        [2, 1, -2, 0, 0, 0, 0, 0], [0, 0, 0, 0, 0, 0, 0, 0]]
PREFS = [False, False, True, ["k", "M", "G"], ["m"], ["k"], ["da", "d"]]
QUNITS = ["cm/g2", "km", "J/s", "m2", "kg*m/s2"]


@st.composite
def entry(draw):
    sym = draw(st.sampled_from(FRESH))
    form = draw(st.sampled_from(["dict", "dict", "quantity", "dict_type", "dict_type", "dict_builtin", "dict_type2"]))
    if form == "quantity":
        # ("nan": a magnitude that does not compare equal to itself - the unit still has to go when its scope ends)
        return {"sym": sym, "form": form, "mag": draw(st.sampled_from([1.0, 2.0, 0.5, 60.0, 2.0, "nan"])), "unit": draw(st.sampled_from(QUNITS))}
    return {"sym": sym, "form": form, "mag": draw(st.sampled_from([1.0, 3.0, 0.25, 1e3, 3.0, "nan"])), "dims": draw(st.sampled_from(DIMS)),
            "prefixes": draw(st.sampled_from(PREFS)), "named": draw(st.booleans())}


@st.composite
def bad_entry(draw):
    kind = draw(st.sampled_from(["existing", "prefixed_clash", "new_prefix_clash", "missing_magnitude"]))
    if kind == "existing":
        return {"sym": draw(st.sampled_from(["m", "J", "Pa", "[c]", "eV"])), "form": "dict", "mag": 2.0, "dims": DIMS[0],
                "prefixes": False, "named": False, "bad": kind}
    if kind == "prefixed_clash":
        return {"sym": draw(st.sampled_from(["km", "mm", "kg", "MeV", "dB", "mrad"])), "form": "dict", "mag": 2.0, "dims": DIMS[0],
                "prefixes": False, "named": False, "bad": kind}
    if kind == "new_prefix_clash":
        sym, pf = draw(st.sampled_from([("ol", ["m"]), ("a", True), ("x", ["M"]), ("in", ["m"]), ("d", ["c"])]))
        return {"sym": sym, "form": "dict", "mag": 2.0, "dims": DIMS[0], "prefixes": pf, "named": False, "bad": kind}
    return {"sym": draw(st.sampled_from(FRESH)), "form": "dict_nomag", "dims": DIMS[0], "prefixes": False, "named": False,
            "bad": kind, "with_type": draw(st.booleans())}


@st.composite
def units_spec(draw):
    ents = draw(st.lists(entry(), min_size=1, max_size=4, unique_by=lambda e: e["sym"]))
    if draw(st.integers(0, 2)) == 0:
        b = draw(bad_entry())
        ents = [e for e in ents if e["sym"] != b["sym"]]
        j = draw(st.integers(0, len(ents)))
        ents.insert(j, b)
    return ents


DIP_UNITS = ["foo", "bar", "len", "tt"]


@st.composite
def dip_text(draw):
    lines = []
    n = draw(st.integers(0, 3))
    names = draw(st.lists(st.sampled_from(DIP_UNITS), min_size=n, max_size=n, unique=True))
    for nm in names:
        lines.append(f"$unit {nm} = {draw(st.sampled_from(['2', '3.5', '10']))} {draw(st.sampled_from(['m', 'cm', 's', 'kg*m2']))}")
    mode = draw(st.sampled_from(["ok", "ok", "clash_constant", "unknown_unit", "bad_literal", "option", "dim_mismatch"]))
    if mode == "clash_constant":
        lines.insert(draw(st.integers(0, len(lines))), f"$unit {draw(st.sampled_from(['c', 'e', 'pi', 'k_B']))} = 3 m")
    export = draw(st.booleans())
    if names and export and draw(st.booleans()):
        lines.append("empty float = none m")
    if names:
        lines.append(f"a float = 2 [{names[0]}]")
        lines.append(f"b float = 4 [{names[-1]}]")
    else:
        lines.append("a float = 2 m")
    if mode in ("clash_constant",):
        lines.append("c float = 1 m")
    if mode == "unknown_unit":
        lines.append("c float = 1 nonexistent")
    elif mode == "bad_literal":
        lines.append("c float = abc m")
    elif mode == "option":
        lines.append("c float = 5 m")
        lines.append("  = 1 m")
        lines.append("  = 2 m")
    elif mode == "dim_mismatch" and names:
        lines.append(f"a = 3 K")
    # afterwards the returned environment's units are used by a numerical solver, inside a with block or as a plain object
    return {"lines": lines, "mode": mode, "nunits": len(names), "names": names, "export": export,
            "solver": draw(st.sampled_from([None, "with", "plain", "plain", "raise", "equal", "equal_raise"]))}


op = st.one_of(
    st.tuples(st.just("open"), units_spec()),
    st.tuples(st.just("open"), units_spec()),
    st.tuples(st.just("close")),
    st.tuples(st.just("close")),
    st.tuples(st.just("close_oldest")),           # overlapping (not nested) lifetimes: the scope opened first ends first
    st.tuples(st.just("with_ok"), units_spec()),
    st.tuples(st.just("with_raise"), units_spec()),
    # a registration cut short after j entries by something that is not an Exception (an interrupt)
    st.tuples(st.just("open_abort"), units_spec(), st.integers(1, 3)),
    st.tuples(st.just("dip"), dip_text()),
    st.tuples(st.just("dip"), dip_text()),
)


@st.composite
def history(draw):
    ops = draw(st.lists(op, min_size=1, max_size=25))
    return {"ops": [list(o) for o in ops]}


@st.composite
def overlap_history(draw):
    """2-4 scopes alive at the same time (distinct symbols, each with a unit of the custom conversion class), ended in a
    generated order that is not last-in-first-out"""
    n = draw(st.integers(2, 4))
    syms = draw(st.lists(st.sampled_from(FRESH), min_size=n, max_size=n, unique=True))
    ops = []
    for sy in syms:
        e = draw(entry())
        e = dict(e, sym=sy)
        if e["form"] != "quantity" and draw(st.integers(0, 3)):
            e["form"] = draw(st.sampled_from(["dict_type", "dict_type2"]))
        ops.append(["open", [e]])
        if draw(st.integers(0, 3)) == 0:
            ops.append(["dip", draw(dip_text())])
    for _ in range(n):
        ops.append([draw(st.sampled_from(["close_oldest", "close_oldest", "close"]))])
    return {"ops": ops}


def strategies(tier):
    return {"history": (history(), 1200, 30000), "overlap": (overlap_history(), 300, 6000)}


# --------------------------------------------------------------------------- model

def _admissible_texts(rows):
    """rows: list of (sym, prefixes) -> list of all admissible atom texts (symbols and prefixed forms)"""
    out = []
    for sym, pf in rows:
        out.append(sym)
        if pf is True:
            out += [p + sym for p in R.PREFIX_ORDER]
        elif isinstance(pf, list):
            out += [p + sym for p in pf]
    return out


PRISTINE_ROWS = [(k, (True if u.prefixes == list(R.PREFIX_ORDER) and len(u.prefixes) == len(R.PREFIX_ORDER) else (u.prefixes or False)))
                 for k, u in R.UNITS.items()]
assert len(set(_admissible_texts(PRISTINE_ROWS))) == len(_admissible_texts(PRISTINE_ROWS))


class CustomType:
    pass


def _custom_type():
    from scinumtools.units.unit_types import UnitType

    class HarnessUnitType(UnitType):
        def _istype(self):
            return False

    class HarnessUnitType2(UnitType):
        def _istype(self):
            return False
    HarnessUnitType.second = HarnessUnitType2
    return HarnessUnitType


class _Abort(BaseException):
    """stands for KeyboardInterrupt / SystemExit arriving while units are being registered"""


class _Aborting(dict):
    def __init__(self, d, after):
        super().__init__(d)
        self._after = after

    def items(self):
        for i, kv in enumerate(super().items()):
            if i >= self._after:
                raise _Abort()
            yield kv
        raise _Abort()


def _build(ents, typ):
    """entries -> dict for UnitEnvironment (fresh objects every time: the constructor writes into them)"""
    from scinumtools.units import Quantity
    d = {}
    for e in ents:
        if e["form"] == "quantity":
            d[e["sym"]] = Quantity(float(e["mag"]), e["unit"])
        elif e["form"] == "dict_nomag":
            x = {"dimensions": list(e["dims"]), "prefixes": e["prefixes"]}
            if e.get("with_type"):
                x["definition"] = typ
            d[e["sym"]] = x
        else:
            x = {"magnitude": float(e["mag"]), "dimensions": list(e["dims"]), "prefixes": copy.copy(e["prefixes"])}
            if e["named"]:
                x["name"] = "unit " + e["sym"]
            if e["form"] == "dict_type":
                x["definition"] = typ
            elif e["form"] == "dict_type2":
                x["definition"] = typ.second
            elif e["form"] == "dict_builtin":
                from scinumtools.units.unit_types import TemperatureUnitType
                x["definition"] = TemperatureUnitType       # a conversion type that is already in the table
            d[e["sym"]] = x
    return d


def _expect(ents, table_rows):
    """-> (should_succeed, rows_to_register[(sym, prefixes)])"""
    rows = []
    keys = {s for s, _ in table_rows}
    for e in ents:
        if e["sym"] in keys or e["sym"] in {s for s, _ in rows}:
            return False, []
        if e["form"] == "dict_nomag":
            return False, []
        rows.append((e["sym"], e.get("prefixes", False) if e["form"] != "quantity" else False))
    texts = _admissible_texts(table_rows + rows)
    if len(set(texts)) != len(texts):
        return False, []
    return True, rows


def _tables_state():
    s = R.snapshot()
    return s


def check(case):
    v = Verdict()
    try:
        _check(case, v)
    finally:
        if not R.tables_pristine():
            R.restore_tables()
    return v


def _check(case, v):
    from scinumtools.units import Quantity, UnitEnvironment
    from scinumtools.units import settings as S
    from scinumtools.dip import DIP
    if not R.tables_pristine():
        R.restore_tables()
    typ = _custom_type()
    stack = []          # list of (env, rows, ents)
    ever = []
    nt = False
    uid = [0]
    nonlifo = [False]

    def table_rows():
        rows = list(PRISTINE_ROWS)
        for _env, r, _e in stack:
            rows += r
        return rows

    def invariant(step, what):
        snap = R.snapshot()
        want_keys = list(R.PRISTINE["unit_keys"]) + [s for _env, r, _e in stack for s, _ in r]
        if snap["unit_keys"] != want_keys:
            extra = [k for k in snap["unit_keys"] if k not in want_keys]
            missing = [k for k in want_keys if k not in snap["unit_keys"]]
            return v.fail("table-keys", f"step {step} ({what}): UNIT_STANDARD has leaked {extra} / lost {missing} "
                                        f"(open scopes: {[[s for s, _ in r] for _e, r, _x in stack]})")
        if snap["units"][:len(R.PRISTINE["units"])] != R.PRISTINE["units"]:
            return v.fail("table-rows", f"step {step} ({what}): a pristine UNIT_STANDARD row changed")
        if snap["prefixes"] != R.PRISTINE["prefixes"]:
            return v.fail("prefix-table", f"step {step} ({what}): UNIT_PREFIXES changed")
        want_types = list(R.PRISTINE["types"])
        # the custom conversion type is in the table exactly while at least one open scope registered a unit with it
        # custom classes are prepended in the order in which they were first needed by a still-open scope
        seen_t = []
        for _env, _r, ents in stack:
            for e in ents:
                nm = {"dict_type": "HarnessUnitType", "dict_type2": "HarnessUnitType2"}.get(e["form"])
                if nm and nm not in seen_t:
                    seen_t.append(nm)
        want_types = list(reversed(seen_t)) + want_types
        if nonlifo[0] and stack:
            # scopes with overlapping lifetimes: which of them keeps a shared conversion class alive is not specified;
            # everything else is, and so is the table once all of them have ended
            if [t for t in snap["types"] if not t.startswith("HarnessUnitType")] != list(R.PRISTINE["types"]):
                return v.fail("type-table", f"step {step} ({what}): UNIT_TYPES = {snap['types']}")
        elif snap["types"] != want_types:
            return v.fail("type-table", f"step {step} ({what}): UNIT_TYPES = {snap['types']}, expected {want_types}")
        # registered symbols usable inside, with the registered factor
        for _env, rows, ents in stack:
            for e in ents:
                try:
                    q = Quantity(1, e["sym"])
                except Exception as ex:
                    return v.fail("inside-unusable", f"step {step} ({what}): Quantity(1,{e['sym']!r}) raised {ex!r} inside its scope")
                if e["mag"] == "nan":
                    v.label("unit_with_nan_magnitude")
                    continue
                if e["form"] == "quantity":
                    want = e["mag"] * R.factor_of_expression_text(e["unit"])
                else:
                    want = e["mag"]
                if not close(q.baseunits.magnitude * q.magnitude.value, want, 1e-12):
                    return v.fail("inside-factor", f"step {step}: {e['sym']} has factor {q.baseunits.magnitude!r}, registered {want!r}")
                # ... and with an admitted prefix (the same symbol may have meant something else in an earlier scope)
                pf = e.get("prefixes")
                pf = ["k", "m"] if pf is True else (pf or [])
                for p_ in pf[:2]:
                    try:
                        qp = Quantity(1, p_ + e["sym"])
                    except Exception as ex:
                        return v.fail("inside-unusable", f"step {step} ({what}): Quantity(1,{p_ + e['sym']!r}) raised {ex!r} "
                                                         f"although {e['sym']} admits the prefix")
                    wantp = want * R.PREFIX[p_] if hasattr(R, "PREFIX") else None
                    if wantp is not None and not close(qp.baseunits.magnitude * qp.magnitude.value, wantp, 1e-12):
                        return v.fail("inside-factor", f"step {step}: {p_ + e['sym']} has factor "
                                                       f"{qp.baseunits.magnitude!r}, registered {wantp!r}")
        active = {s for _env, r, _e in stack for s, _ in r}
        for s in ever:
            if s in active or s in R.UNITS:
                continue
            # outside its scope the symbol must be unknown (unless it reads as another admissible atom)
            if s in dict.fromkeys(_admissible_texts(table_rows())):
                continue
            try:
                Quantity(1, s)
            except Exception:
                continue
            return v.fail("outside-usable", f"step {step} ({what}): Quantity(1,{s!r}) works although no open scope defines it")
        return None

    for step, o in enumerate(case["ops"]):
        name = o[0]
        if name == "open_abort":
            ents = o[1]
            ok, rows = _expect(ents, table_rows())
            if not ok:
                continue
            try:
                env = UnitEnvironment(_Aborting(_build(ents, typ), o[2]))
            except _Abort:
                nt = True
                v.label("registration_interrupted_after_success")
                if invariant(step, f"registration of {[e['sym'] for e in ents]} interrupted after {min(o[2], len(ents))} unit(s)"):
                    return
                continue
            except Exception as ex:
                return v.fail("registration-refused", f"step {step}: UnitEnvironment({[e['sym'] for e in ents]}) raised {ex!r}")
            env.close()
            v.label("interrupt_not_reached")
            continue
        if name in ("open", "with_ok", "with_raise"):
            ents = o[1]
            if name == "open" and len(stack) >= 4:
                continue
            ok, rows = _expect(ents, table_rows())
            d = _build(ents, typ)
            try:
                env = UnitEnvironment(d)
            except Exception as ex:
                if ok:
                    return v.fail("registration-refused", f"step {step}: UnitEnvironment({[e['sym'] for e in ents]}) raised {ex!r}")
                pos = next((i for i, e in enumerate(ents) if e.get("bad")), 0)
                # which entry fails first? any failure after >=1 successful insert is the interesting class
                first_fail = 0
                keys = {s for s, _ in table_rows()}
                for i, e in enumerate(ents):
                    if e["sym"] in keys or e["form"] == "dict_nomag":
                        break
                    first_fail = i + 1
                if first_fail >= 1:
                    nt = True
                    v.label("fail_after_success")
                v.label("registration_failed")
                if invariant(step, f"failed registration of {[e['sym'] for e in ents]}"):
                    return
                continue
            if not ok:
                env.close()
                return v.fail("registration-accepted", f"step {step}: UnitEnvironment({[(e['sym'], e.get('prefixes')) for e in ents]}) "
                                                       f"succeeded although a symbol is duplicated")
            ever.extend(s for s, _ in rows)
            stack.append((env, rows, ents))
            if len(stack) >= 2:
                nt = True
                v.label("nested")
            if invariant(step, "open"):
                return
            if name == "with_ok":
                with env:
                    pass
                stack.pop()
            elif name == "with_raise":
                try:
                    with env:
                        Quantity(1, ents[0]["sym"])
                        raise RuntimeError("body fails")
                except RuntimeError:
                    pass
                stack.pop()
                v.label("body_raised")
            if invariant(step, name):
                return
        elif name == "close":
            if not stack:
                continue
            env, rows, ents = stack.pop()
            env.close()
            if invariant(step, "close"):
                return
        elif name == "close_oldest":
            if not stack:
                continue
            if len(stack) >= 2:
                nonlifo[0] = True
                nt = True
                v.label("overlapping_lifetimes")
            env, rows, ents = stack.pop(0)
            env.close()
            if invariant(step, "close of the scope opened first"):
                return
        elif name == "dip":
            spec = o[1]
            uid[0] += 1
            raised = None
            try:
                p = DIP(name=f"sv{uid[0]}")
                p.add_string("\n".join(spec["lines"]))
                env2 = p.parse()
                env2.data()
            except Exception as ex:
                raised = ex
            if raised is not None and spec["nunits"] >= 1:
                nt = True
                v.label("dip_raised_with_units")
            if raised is None and spec["mode"] in ("unknown_unit", "bad_literal", "option"):
                # not this property's business (C14/C16), but a parse that should fail and does not would make the
                # generated class meaningless: record it as a label only
                v.label("dip_unexpected_success")
            v.label("dip_" + spec["mode"])
            if invariant(step, f"DIP parse ({spec['mode']}, raised={type(raised).__name__ if raised else None})"):
                return
            if raised is None and spec.get("names") and spec.get("export"):
                # reading the parsed environment as quantities (which needs its units) may fail for an empty value,
                # but leaves nothing registered
                from scinumtools.dip import Format
                try:
                    env2.data(Format.QUANTITY)
                except Exception:
                    pass
                v.label("quantity_export")
                if invariant(step, "Environment.data(Format.QUANTITY) of the parsed environment"):
                    return
            if raised is None and spec.get("solver") and spec.get("names"):
                from scinumtools.dip.solvers import NumericalSolver
                u0 = spec["names"][0]
                expr = f"1 [{u0}] + 2 [{u0}]"
                try:
                    if spec["solver"] == "with":
                        with NumericalSolver(env2) as slv:
                            slv.solve(expr)
                    elif spec["solver"] == "raise":
                        with NumericalSolver(env2) as slv:
                            slv.solve(expr + " + 1 K + 1 cd")          # refused: dimensions differ
                    elif spec["solver"] == "equal":
                        with NumericalSolver(env2) as slv:
                            slv.equal(f"3 [{u0}]", expr)
                    elif spec["solver"] == "equal_raise":
                        with NumericalSolver(env2) as slv:
                            slv.equal(f"3 [{u0}]", "1 K * 1 cd")       # comparison of other dimensions raises
                    else:
                        NumericalSolver(env2).solve(expr)
                except Exception:
                    pass
                nt = True
                v.label("solver_" + spec["solver"])
                if invariant(step, f"NumericalSolver on the parsed environment ({spec['solver']})"):
                    return
    # unwind
    while stack:
        env, rows, ents = stack.pop()
        env.close()
        if invariant("end", "close"):
            return
    nonlifo[0] = False
    if not R.tables_pristine():
        return v.fail("not-pristine", "all scopes closed but the tables differ from the import-time snapshot")
    v.nt(nt)
    v.label("history")
