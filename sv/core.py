"""Common machinery: verdicts, recording, evidence, replay files, known findings.

A property module exposes
    ID, RULE, ASSUMPTIONS, LEVEL_NOTE (strings / lists)
    strategies(tier) -> {name: (hypothesis strategy of JSON-able cases, n_quick, n_thorough)}
    check(case) -> Verdict           (pure function of the case and the code under test)
    exhaustive(tier) -> iterable of cases (optional; enumerated sub-domains)
    KNOWN = {finding_id: predicate(case, kind, detail) -> bool}   (optional)
The same check() is used by the generated search, the corpus tier and --replay.
"""
import hashlib
import json
import math
import os
import time

VERIF = os.path.dirname(os.path.dirname(os.path.abspath(__file__)))
# SV_OUT redirects replays/ and evidence/ (used only when checking scratch copies: mutants, seeded changes)
OUT = os.environ.get("SV_OUT") or VERIF


class PropertyViolation(Exception):
    def __init__(self, case, kind, detail):
        super().__init__(f"{kind}: {detail}")
        self.case = case
        self.kind = kind
        self.detail = detail


class HarnessError(Exception):
    """The harness (not the code under test) is at fault -> exit 2."""


class Verdict:
    __slots__ = ("labels", "nontrivial", "violations", "discarded", "info")

    def __init__(self):
        self.labels = set()
        self.nontrivial = False
        self.violations = []   # list of (kind, detail)
        self.discarded = None  # reason string
        self.info = None       # optional JSON-able extra (observed values) kept in samples

    def label(self, *names):
        self.labels.update(names)
        return self

    def nt(self, flag=True):
        if flag:
            self.nontrivial = True
        return self

    def fail(self, kind, detail):
        self.violations.append((kind, str(detail)[:2000]))
        return self

    def discard(self, reason):
        self.discarded = reason
        return self


def canon(case):
    return json.dumps(case, sort_keys=True, separators=(",", ":"), default=repr)


def digest(case):
    return hashlib.sha1(canon(case).encode()).hexdigest()[:16]


def jsonable(x):
    """Best-effort conversion of observed values for replay files."""
    try:
        json.dumps(x)
        return x
    except Exception:
        pass
    if isinstance(x, dict):
        return {str(k): jsonable(v) for k, v in x.items()}
    if isinstance(x, (list, tuple, set)):
        return [jsonable(v) for v in x]
    try:
        import numpy as np
        if isinstance(x, np.ndarray):
            return jsonable(x.tolist())
        if isinstance(x, np.generic):
            return jsonable(x.item())
    except Exception:
        pass
    return repr(x)


# --------------------------------------------------------------------------- float comparison

def close(a, b, rel=1e-12, abs_=0.0):
    """NaN == NaN, inf == same inf, otherwise relative/absolute tolerance."""
    try:
        a = float(a)
        b = float(b)
    except Exception:
        return a == b
    if math.isnan(a) or math.isnan(b):
        return math.isnan(a) and math.isnan(b)
    if math.isinf(a) or math.isinf(b):
        return a == b
    return abs(a - b) <= rel * max(abs(a), abs(b)) + abs_


def allclose(a, b, rel=1e-12, abs_=0.0):
    import numpy as np
    a = np.asarray(a, dtype=float)
    b = np.asarray(b, dtype=float)
    if a.shape != b.shape:
        return False
    return all(close(x, y, rel, abs_) for x, y in zip(a.ravel().tolist(), b.ravel().tolist()))


# --------------------------------------------------------------------------- known findings

def load_known(prop_id):
    path = os.path.join(VERIF, "known_findings.json")
    if not os.path.exists(path):
        return []
    with open(path) as f:
        data = json.load(f)
    return [e for e in data.get("findings", []) if e.get("property") == prop_id]


# --------------------------------------------------------------------------- recorder

class Recorder:
    MAX_SAMPLES = 6

    def __init__(self, module, known_entries, unit_name="main"):
        self.module = module
        self.unit = unit_name
        self.evaluations = 0
        self.discarded = {}
        self.labels = {}
        self.nt_digests = set()
        self.nt_count = 0
        self.samples = []
        self.trivial_samples = []
        self.known_hits = {}
        self.known = [e for e in known_entries if e.get("status") == "known"]
        self.preds = getattr(module, "KNOWN", {})
        self.suppressed_examples = {}

    def match_known(self, case, kind, detail):
        for e in self.known:
            pred = self.preds.get(e["id"])
            if pred is None:
                continue
            try:
                if pred(case, kind, detail):
                    return e["id"]
            except Exception:
                continue
        return None

    def process(self, case, verdict):
        """Count the case; raise PropertyViolation for an unlisted violation."""
        if verdict.discarded is not None:
            self.discarded[verdict.discarded] = self.discarded.get(verdict.discarded, 0) + 1
            return
        self.evaluations += 1
        for lab in verdict.labels:
            self.labels[lab] = self.labels.get(lab, 0) + 1
        if verdict.nontrivial:
            self.nt_count += 1
            d = digest(case)
            if d not in self.nt_digests:
                self.nt_digests.add(d)
                if len(self.samples) < self.MAX_SAMPLES:
                    s = {"case": case, "labels": sorted(verdict.labels)}
                    if verdict.info is not None:
                        s["observed"] = jsonable(verdict.info)
                    self.samples.append(s)
        elif len(self.trivial_samples) < 2:
            self.trivial_samples.append({"case": case, "labels": sorted(verdict.labels)})
        for kind, detail in verdict.violations:
            fid = self.match_known(case, kind, detail)
            if fid is not None:
                self.known_hits[fid] = self.known_hits.get(fid, 0) + 1
                if fid not in self.suppressed_examples:
                    self.suppressed_examples[fid] = {"case": case, "kind": kind, "detail": detail}
                continue
            raise PropertyViolation(case, kind, detail)

    def to_dict(self):
        return {
            "unit": self.unit,
            "evaluations": self.evaluations,
            "discarded": self.discarded,
            "labels": self.labels,
            "nt_digests": sorted(self.nt_digests),
            "nt_count": self.nt_count,
            "samples": self.samples,
            "trivial_samples": self.trivial_samples,
            "known_hits": self.known_hits,
            "suppressed_examples": self.suppressed_examples,
        }


def write_replay(prop_id, case, kind, detail, seed, tier, unit):
    d = os.path.join(OUT, "replays", prop_id)
    os.makedirs(d, exist_ok=True)
    path = os.path.join(d, f"{kind.replace('/', '_').replace(' ', '_')[:40]}-{digest(case)}.json")
    with open(path, "w") as f:
        json.dump({"property": prop_id, "kind": kind, "detail": detail, "case": case,
                   "seed": seed, "tier": tier, "unit": unit}, f, indent=1, default=repr)
    return path


def write_evidence(prop_id, tier, seed, level, merged, module, wall, violations, extra=None):
    os.makedirs(os.path.join(OUT, "evidence"), exist_ok=True)
    cov = {
        "evaluations": merged["evaluations"],
        "distinct_nontrivial": len(merged["nt_digests"]),
        "nontrivial_total": merged["nt_count"],
        "rule": module.RULE,
        "samples": merged["samples"],
        "trivial_samples": merged["trivial_samples"][:2],
        "class_histogram": dict(sorted(merged["labels"].items())),
        "discarded": merged["discarded"],
        "known_findings_hit": merged["known_hits"],
        "per_unit": merged["per_unit"],
        "exhaustive": False,
    }
    if extra:
        cov.update(extra)
    ev = {
        "property_id": prop_id,
        "tier": tier,
        "seed": seed,
        "level": level,
        "coverage": cov,
        "assumptions": list(getattr(module, "ASSUMPTIONS", [])),
        "wall_s": round(wall, 2),
        "violations": violations,
    }
    path = os.path.join(OUT, "evidence", f"{prop_id}.json")
    tmp = path + ".tmp"
    with open(tmp, "w") as f:
        json.dump(ev, f, indent=1, default=repr)
    os.replace(tmp, path)
    return path
