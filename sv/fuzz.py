"""Coverage-guided tier:  python -m sv.fuzz <ID> <strategy> <runs> <seed> <result.json>

The property's own Hypothesis strategy and its own check(case) are driven by libFuzzer through atheris
(`test.hypothesis.fuzz_one_input`): the bytes libFuzzer mutates are Hypothesis' choice sequence, so every input is a
well-formed case of the property's domain and the oracle is the same one the random search uses; the feedback is branch
coverage of the instrumented scinumtools modules. Runs in its own process (libFuzzer never returns and skips atexit): the
recorder state is flushed to <result.json> every few seconds, after <runs> cases, and at the first unlisted violation.
"""
import json
import os
import sys
import time


def main(argv):
    prop_id, strat_name, runs, seed, result_path = argv[1], argv[2], int(argv[3]), int(argv[4]), argv[5]
    import atheris
    with atheris.instrument_imports(include=["scinumtools"], enable_loader_override=False):
        import scinumtools                     # noqa: F401
        import scinumtools.solver              # noqa: F401
        import scinumtools.units               # noqa: F401
        import scinumtools.materials           # noqa: F401
        import scinumtools.dip                 # noqa: F401
        import scinumtools.dip.config          # noqa: F401
    from hypothesis import HealthCheck, given, settings
    from . import core
    from .run import guard_import, load_module
    guard_import()
    mod = load_module(prop_id)
    rec = core.Recorder(mod, core.load_known(prop_id), unit_name=f"fuzz:{strat_name}#0")
    strat = mod.strategies("thorough")[strat_name][0]
    state = {"n": 0, "t0": time.time(), "last": time.time()}

    def flush(violation=None, done=False):
        out = {"unit": f"fuzz:{strat_name}#0", "violation": violation, "error": None, "rec": rec.to_dict(),
               "wall": round(time.time() - state["t0"], 2), "done": done, "cases": state["n"]}
        tmp = result_path + ".tmp"
        with open(tmp, "w") as f:
            json.dump(out, f)
        os.replace(tmp, result_path)

    @settings(database=None, deadline=None, suppress_health_check=list(HealthCheck))
    @given(strat)
    def test(case):
        state["n"] += 1
        try:
            rec.process(case, mod.check(case))
        except core.PropertyViolation as e:
            flush({"case": e.case, "kind": e.kind, "detail": e.detail, "seed": seed}, done=True)
            os._exit(0)
        now = time.time()
        if state["n"] >= runs:
            flush(done=True)
            os._exit(0)
        if now - state["last"] > 5:
            state["last"] = now
            flush()

    corpus = result_path + ".corpus"
    os.makedirs(corpus, exist_ok=True)
    flush()
    args = [sys.argv[0], f"-seed={seed}", f"-runs={runs * 3 + 1000}", "-max_len=8192", "-len_control=0", "-timeout=120",
            "-print_final_stats=0", "-verbosity=0", corpus]
    atheris.Setup(args, test.hypothesis.fuzz_one_input)
    atheris.Fuzz()


if __name__ == "__main__":
    try:
        main(sys.argv)
    except SystemExit:
        raise
    except BaseException:
        import traceback
        traceback.print_exc()
        os._exit(3)
