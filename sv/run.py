"""CLI:  python -m sv.run <ID> [--tier quick|thorough] [--replay FILE] [--jobs N]

exit 0  property held on everything explored (known findings are printed as KNOWN-FINDING lines)
exit 1  VIOLATION property=<id> replay=<path>     (a violation not listed in known_findings.json)
exit 2  harness error (never a violation)
"""
import argparse
import glob
import importlib
import json
import math
import multiprocessing
import os
import sys
import time
import traceback

from . import core

NSHARD = {"quick": 8, "thorough": 16}


def load_module(prop_id):
    names = [n for n in os.listdir(os.path.join(os.path.dirname(__file__), "props"))
             if n.lower().startswith(prop_id.lower() + "_") and n.endswith(".py")]
    if len(names) != 1:
        raise core.HarnessError(f"no unique module for {prop_id}: {names}")
    return importlib.import_module("sv.props." + names[0][:-3])


def guard_import():
    import scinumtools
    src = os.path.realpath(os.environ.get("SV_SRC", "/repo/src"))
    got = os.path.realpath(scinumtools.__file__)
    if not got.startswith(src + os.sep):
        raise core.HarnessError(f"scinumtools imported from {got}, expected under {src}")
    return got


# --------------------------------------------------------------------------- work units

def _run_unit(args):
    """Executed in a forked child: one (strategy, shard) or one exhaustive shard."""
    prop_id, kind, name, shard, nshards, n_examples, seed, tier = args
    t0 = time.time()
    out = {"unit": f"{name}#{shard}", "violation": None, "error": None}
    try:
        mod = load_module(prop_id)
        rec = core.Recorder(mod, core.load_known(prop_id), unit_name=f"{name}#{shard}")
        try:
            if kind == "fuzz":
                return _run_fuzz(prop_id, name, n_examples, seed, out, t0)
            if kind == "exh":
                for case in mod.exhaustive(tier, shard, nshards):
                    rec.process(case, mod.check(case))
            else:
                import hypothesis
                from hypothesis import HealthCheck, Phase, given, settings
                strat = mod.strategies(tier)[name][0]
                phases = [Phase.explicit, Phase.generate, Phase.target]
                if not os.environ.get("SV_NO_SHRINK"):
                    phases.append(Phase.shrink)

                @hypothesis.seed(seed)
                @settings(max_examples=n_examples, database=None, deadline=None,
                          derandomize=False, report_multiple_bugs=False, print_blob=False,
                          phases=phases,
                          suppress_health_check=[HealthCheck.too_slow, HealthCheck.data_too_large,
                                                 HealthCheck.large_base_example])
                @given(strat)
                def test(case):
                    rec.process(case, mod.check(case))

                test()
        except core.PropertyViolation as e:
            out["violation"] = {"case": e.case, "kind": e.kind, "detail": e.detail, "seed": seed}
        except BaseException as e:
            # Hypothesis reports 'Flaky' when a failing case does not fail again on re-execution. check(case) is a pure
            # function of the case and the code, so a violation that comes and goes means the code under test carried
            # state from one case to the next inside this process: still a violation, reported with that remark.
            pv = _find_violation(e)
            if pv is None:
                raise
            out["violation"] = {"case": pv.case, "kind": pv.kind, "seed": seed,
                                "detail": "[seen once, not on immediate re-execution in the same process: the outcome "
                                          "depends on what the process did before] " + pv.detail}
        out["rec"] = rec.to_dict()
    except BaseException as e:  # harness error, health check, flaky ...
        out["error"] = "".join(traceback.format_exception(type(e), e, e.__traceback__))[-6000:]
    out["wall"] = round(time.time() - t0, 2)
    return out


def fuzz_available():
    try:
        import atheris  # noqa: F401
        return True
    except Exception:
        return False


def _run_fuzz(prop_id, name, runs, seed, out, t0):
    """Coverage-guided unit: a separate process (libFuzzer never returns); its recorder state comes back as JSON."""
    import subprocess
    import tempfile
    work = tempfile.mkdtemp(prefix="svfuzz_")
    res = os.path.join(work, "result.json")
    try:
        budget = int(os.environ.get("SV_FUZZ_SECONDS", "900"))
        try:
            p = subprocess.run([sys.executable, "-m", "sv.fuzz", prop_id, name, str(runs), str(seed), res],
                               stdout=subprocess.PIPE, stderr=subprocess.STDOUT, timeout=budget, cwd=core.VERIF)
            rc, tail = p.returncode, p.stdout.decode(errors="replace")[-3000:]
        except subprocess.TimeoutExpired as e:
            rc, tail = 0, "(wall-clock budget reached: inconclusive beyond the cases flushed so far)"
        if os.path.exists(res):
            with open(res) as f:
                got = json.load(f)
            out.update({"violation": got["violation"], "rec": got["rec"]})
            out["unit"] = got["unit"]
            if rc != 0 and not got.get("done"):
                out["error"] = f"fuzz process exited {rc}:\n{tail}"
        else:
            out["error"] = f"fuzz process produced no result (exit {rc}):\n{tail}"
    finally:
        import shutil
        shutil.rmtree(work, ignore_errors=True)
    out["wall"] = round(time.time() - t0, 2)
    return out


def _find_violation(exc, depth=0):
    if exc is None or depth > 6:
        return None
    if isinstance(exc, core.PropertyViolation):
        return exc
    for sub in getattr(exc, "exceptions", ()) or ():
        r = _find_violation(sub, depth + 1)
        if r is not None:
            return r
    return _find_violation(exc.__cause__, depth + 1) or _find_violation(exc.__context__, depth + 1)


def plan_units(mod, prop_id, tier, seed):
    units = []
    strategies = mod.strategies(tier)
    maxsh = NSHARD[tier]
    for name, spec in strategies.items():
        n = spec[1] if tier == "quick" else spec[2]
        if n <= 0:
            continue
        min_per = spec[3] if len(spec) > 3 else 40
        nsh = max(1, min(maxsh, n // min_per))
        per = int(math.ceil(n / nsh))
        for k in range(nsh):
            units.append((prop_id, "hyp", name, k, nsh, per, seed * 1000 + k, tier))
    # coverage-guided complement (atheris/libFuzzer driving the same strategy and oracle), where the module asks for it
    fz = getattr(mod, "FUZZ", {}).get(tier, {})
    if fz and fuzz_available():
        for name, runs in fz.items():
            units.append((prop_id, "fuzz", name, 0, 1, runs, seed, tier))
    if hasattr(mod, "exhaustive"):
        nsh = getattr(mod, "EXH_SHARDS", {"quick": 8, "thorough": 16})[tier]
        for k in range(nsh):
            units.append((prop_id, "exh", "exhaustive", k, nsh, 0, seed, tier))
    return units


def merge(results):
    m = {"evaluations": 0, "discarded": {}, "labels": {}, "nt_digests": set(), "nt_count": 0,
         "samples": [], "trivial_samples": [], "known_hits": {}, "per_unit": {}, "suppressed": {}}
    by_name = {}
    for r in results:
        rec = r.get("rec")
        if not rec:
            continue
        name = rec["unit"].split("#")[0]
        pu = m["per_unit"].setdefault(name, {"evaluations": 0, "nontrivial": 0, "shards": 0, "wall_s": 0.0})
        pu["evaluations"] += rec["evaluations"]
        pu["nontrivial"] += rec["nt_count"]
        pu["shards"] += 1
        pu["wall_s"] = round(pu["wall_s"] + r["wall"], 2)
        m["evaluations"] += rec["evaluations"]
        m["nt_count"] += rec["nt_count"]
        m["nt_digests"].update(rec["nt_digests"])
        for k, v in rec["discarded"].items():
            m["discarded"][k] = m["discarded"].get(k, 0) + v
        for k, v in rec["labels"].items():
            m["labels"][k] = m["labels"].get(k, 0) + v
        for k, v in rec["known_hits"].items():
            m["known_hits"][k] = m["known_hits"].get(k, 0) + v
        for k, v in rec["suppressed_examples"].items():
            m["suppressed"].setdefault(k, v)
        by_name.setdefault(name, []).extend(rec["samples"])
        m["trivial_samples"].extend(rec["trivial_samples"])
    # a few samples from every strategy
    for name in sorted(by_name):
        m["samples"].extend(by_name[name][:3])
    m["samples"] = m["samples"][:24]
    return m


# --------------------------------------------------------------------------- main

def replay_file(mod, prop_id, path, known):
    with open(path) as f:
        data = json.load(f)
    case = data["case"] if "case" in data else data
    rec = core.Recorder(mod, known)
    v = mod.check(case)
    print(f"replay {path}: discarded={v.discarded} labels={sorted(v.labels)} violations={v.violations}")
    try:
        rec.process(case, v)
    except core.PropertyViolation:
        print(f"VIOLATION property={prop_id} replay={path}")
        return 1
    for fid in rec.known_hits:
        print(f"KNOWN-FINDING: property={prop_id} {fid} (replayed case matches the listed finding)")
    return 0


def main(argv=None):
    ap = argparse.ArgumentParser()
    ap.add_argument("prop")
    ap.add_argument("--tier", default=os.environ.get("VERIF_TIER", "quick"), choices=["quick", "thorough"])
    ap.add_argument("--replay")
    ap.add_argument("--jobs", type=int, default=int(os.environ.get("SV_JOBS", "16")))
    ap.add_argument("--only", help="run only this strategy name (debugging; evidence still written)")
    a = ap.parse_args(argv)
    prop_id = a.prop.upper()
    try:
        seed = int(os.environ.get("VERIF_SEED", "1") or "1")
    except ValueError:
        seed = 1
    t0 = time.time()
    try:
        where = guard_import()
        mod = load_module(prop_id)
        known = core.load_known(prop_id)
    except BaseException:
        traceback.print_exc()
        print(f"HARNESS-ERROR property={prop_id} (import)")
        return 2

    if a.replay:
        try:
            return replay_file(mod, prop_id, a.replay, known)
        except BaseException:
            traceback.print_exc()
            print(f"HARNESS-ERROR property={prop_id} (replay)")
            return 2

    violations = []   # (kind, case, detail, seed, unit)
    errors = []
    known_lines = []
    not_reproduced = []

    # 1. known-finding witnesses and the corpus (seconds-long replay tier), in a child process
    corpus_files = sorted(glob.glob(os.path.join(core.VERIF, "corpus", prop_id, "*.json")))
    corpus_rec = core.Recorder(mod, known, "corpus")
    try:
        for e in known:
            if e.get("status") != "known":
                continue
            w = e.get("witness")
            if w is None:
                continue
            v = mod.check(w)
            hit = [(k, d) for k, d in v.violations if corpus_rec.match_known(w, k, d) == e["id"]]
            other = [(k, d) for k, d in v.violations if corpus_rec.match_known(w, k, d) is None]
            if hit:
                known_lines.append(f"KNOWN-FINDING: property={prop_id} {e['id']} {e['what']} "
                                   f"[witness: {core.canon(w)[:160]}]")
            else:
                not_reproduced.append(e["id"])
            for k, d in other:
                violations.append((k, w, d, seed, "known-witness"))
        for path in corpus_files:
            with open(path) as f:
                data = json.load(f)
            case = data["case"] if "case" in data else data
            try:
                corpus_rec.process(case, mod.check(case))
            except core.PropertyViolation as e:
                violations.append((e.kind, e.case, e.detail, seed, "corpus:" + os.path.basename(path)))
    except BaseException:
        errors.append("corpus/known replay:\n" + traceback.format_exc())

    # 2. generated search
    results = [{"unit": "corpus#0", "rec": corpus_rec.to_dict(), "wall": round(time.time() - t0, 2)}]
    try:
        units = plan_units(mod, prop_id, a.tier, seed)
        if a.only:
            units = [u for u in units if (f"fuzz:{u[2]}" if u[1] == "fuzz" else u[2]) == a.only]
        ctx = multiprocessing.get_context("fork")
        with ctx.Pool(min(a.jobs, max(1, len(units))), maxtasksperchild=1) as pool:
            for r in pool.imap_unordered(_run_unit, units, chunksize=1):
                results.append(r)
                if r.get("error"):
                    errors.append(f"unit {r['unit']}:\n{r['error']}")
                if r.get("violation"):
                    v = r["violation"]
                    violations.append((v["kind"], v["case"], v["detail"], v["seed"], r["unit"]))
    except BaseException:
        errors.append("pool:\n" + traceback.format_exc())

    merged = merge(results)
    wall = time.time() - t0

    # 3. report
    seen_kinds = set()
    vlines = []
    for kind, case, detail, vseed, unit in violations:
        path = core.write_replay(prop_id, case, kind, detail, vseed, a.tier, unit)
        if kind in seen_kinds:
            continue
        seen_kinds.add(kind)
        vlines.append((path, kind, detail, case))

    extra = {
        "known_findings_listed": [e["id"] for e in known if e.get("status") == "known"],
        "known_findings_not_reproduced": not_reproduced,
        "known_findings_examples": merged["suppressed"],
        "corpus_files_replayed": len(corpus_files),
        "code_under_test": where,
        "harness_errors": len(errors),
    }
    if getattr(mod, "FUZZ", {}).get(a.tier):
        extra["coverage_guided"] = ("atheris/libFuzzer drove strategies %s through hypothesis fuzz_one_input with branch "
                                    "coverage of scinumtools as feedback (units 'fuzz:<strategy>')"
                                    % sorted(mod.FUZZ[a.tier])) if fuzz_available() else \
            "atheris is not importable here: the coverage-guided units were skipped (random search only)"
    extra.update(getattr(mod, "EXTRA_COVERAGE", {}))
    ev = None
    if merged["evaluations"] > 0:
        ev = core.write_evidence(prop_id, a.tier, seed, "exploration", merged, mod, wall, len(vlines), extra)

    nt = len(merged["nt_digests"])
    print(f"[{prop_id}] tier={a.tier} seed={seed} evaluations={merged['evaluations']} "
          f"distinct_nontrivial={nt} discarded={sum(merged['discarded'].values())} "
          f"known_hits={merged['known_hits']} wall={wall:.1f}s evidence={ev}")
    for name, pu in sorted(merged["per_unit"].items()):
        print(f"    {name}: {pu}")
    for line in known_lines:
        print(line)
    for path, kind, detail, case in vlines:
        print(f"  violation kind={kind}\n    detail={detail[:600]}\n    case={core.canon(case)[:600]}")
        print(f"VIOLATION property={prop_id} replay={path}")
    if vlines:
        return 1
    if errors:
        for e in errors[:3]:
            print(e[-1800:], file=sys.stderr)
        if len(errors) > 3:
            print(f"... {len(errors) - 3} more unit error(s) not shown", file=sys.stderr)
        print(f"HARNESS-ERROR property={prop_id} ({len(errors)} unit(s) failed)")
        return 2
    floor = getattr(mod, "NT_FLOOR", 0.05)
    if merged["evaluations"] == 0 or nt < 2 or merged["nt_count"] < floor * merged["evaluations"]:
        print(f"HARNESS-ERROR property={prop_id} generator too trivial: nontrivial={merged['nt_count']} "
              f"of {merged['evaluations']} (floor {floor})")
        return 2
    return 0


if __name__ == "__main__":
    sys.exit(main())
