#!/bin/bash
# tools/mutant.sh <patch> <ID> [<ID>...]   — run checks against a scratch copy of /repo with <patch> applied.
# Nothing is written to /repo or to /verif/evidence|replays. Exit: 0 all listed checks caught it, 1 otherwise.
set -u
PATCH="$(realpath "$1")"; shift
TIER="${MUT_TIER:-quick}"
W="$(mktemp -d /tmp/svmut.XXXXXX)"
trap 'rm -rf "$W"' EXIT
rsync -a --exclude .git /repo/ "$W/repo/"
( cd "$W/repo" && patch -p1 -s < "$PATCH" ) || { echo "PATCH-FAILED $PATCH"; exit 2; }
if [ -n "${MUT_TESTS:-}" ]; then
  ( cd "$W/repo" && PYTHONPATH="$W/repo/src" /venv/bin/python -m pytest -q -p no:cacheprovider -x -q 2>&1 | tail -3 )
fi
rc=0
for ID in "$@"; do
  out="$(cd /verif && SV_SRC="$W/repo/src" SV_OUT="$W/out" SV_NO_SHRINK=${SV_NO_SHRINK-1} ./check "$ID" --tier "$TIER" ${MUT_ONLY:+--only $MUT_ONLY} 2>&1)"
  code=$?
  if [ $code -eq 1 ]; then echo "CAUGHT $ID $(basename "$PATCH"): $(echo "$out" | grep -m1 'violation kind' )";
  else echo "MISSED $ID $(basename "$PATCH") (exit $code)"; echo "$out" | tail -5; rc=1; fi
done
exit $rc
