#!/venv/bin/python
"""tools/add_fixed.py <prop> <id> <commit> <corpus-name> <site> <what>  < witness.json  — record a repaired defect"""
import json, sys
prop, fid, commit, name, site, what = sys.argv[1:7]
w = json.load(sys.stdin)
k = json.load(open('/verif/known_findings.json'))
assert not any(f['id'] == fid for f in k['findings']), fid
k['findings'].append({"property": prop, "id": fid, "status": "fixed", "commit": commit, "site": site,
                      "what": f"fixed: property={prop} {commit} {what}", "witness": w})
json.dump(k, open('/verif/known_findings.json', 'w'), indent=1)
json.dump({"property": prop, "case": w}, open(f'/verif/corpus/{prop}/{name}.json', 'w'), indent=1)
print("recorded", fid)
