#!/bin/bash
# tools/run_some.sh <tier> <seed> <ID>...  — like run_all.sh for the listed checks only
TIER="$1"; S="$2"; shift 2
cd "$(dirname "$0")/.."
for ID in "$@"; do
  t0=$(date +%s); out=$(VERIF_SEED=$S ./check $ID --tier $TIER 2>&1); rc=$?; t1=$(date +%s)
  echo "seed=$S $ID exit=$rc $((t1-t0))s $(echo "$out" | grep -E "^\[$ID" | sed 's/evidence=.*//')"
  if [ $rc -ne 0 ]; then echo "$out" | grep -E "VIOLATION|HARNESS|violation kind|detail" | head -6 | cut -c1-400; fi
done
