#!/venv/bin/python
"""Round-10 prompt for a fresh sub-agent for property <ID>: two seeded changes + a hunt on the unchanged tree.
Only the property text and its worktree are given."""
import json, sys
pid = sys.argv[1]
p = [json.loads(l) for l in open('/verif/properties.jsonl') if json.loads(l)['id'] == pid][0]
W = f"/tmp/wt/{pid}"; O = f"/tmp/seed_out/{pid}"
print(f"""You are helping to evaluate a test-adequacy study on the open-source Python package scinumtools (pure Python: expression solver, physical units/quantities, materials calculator, DIP parameter-file parser).

You have your own scratch git worktree of the repository at {W} (detached HEAD). Work ONLY inside {W} and {O}. Never touch /repo or /verif, never read anything under /verif.
The package is installed in /venv in editable mode pointing at another checkout, so ALWAYS run python as:
    cd {W} && PYTHONPATH={W}/src /venv/bin/python ...
and the existing test suite as:
    cd {W} && PYTHONPATH={W}/src /venv/bin/python -m pytest -q -p no:cacheprovider -x
(218 tests, ~15-40 s; all pass on the unchanged tree. There is no network. The documentation is under docs/.)

Here is a semantic property that the package is supposed to satisfy:

  Title: {p['title']}
  Statement: {p['statement']}
  Quantified over: {p['quantifier']['text']}
  Relevant source files: {', '.join(p['anchors']['files'])}

PART A - produce TWO different, independent, realistic source changes (the kind of regression a maintainer could plausibly introduce during a refactor, optimisation, caching, clean-up or "small fix"), each of which
  (a) BREAKS the property above (for some inputs / histories the stated behaviour no longer holds),
  (b) still imports fine and still passes the ENTIRE existing test suite unchanged (run it!),
  (c) needs something SPECIFIC to manifest. Change 1: TWO cooperating code sites that each look fine alone (e.g. a helper changed in one file plus a caller's assumption in another; a cache plus an invalidation that misses one path), or state carried from one public call to a later one. Change 2: an effect that depends on a less-travelled but documented input form or option named in the statement (a spelling, a type, a constructor form, a keyword argument, an error path followed by further use) - read the docs/ pages for the feature and pick something the tests never exercise. Neither may be something ordinary use would expose at once (do not break every call).
Do not add comments in the code that reveal the change is deliberate. Do not edit tests.

For each change k in 1,2 write into {O}/k/ :
  - patch.diff : `git diff` of ONLY that change against the unchanged HEAD (apply each change alone on a clean tree: use `git checkout -- .` between changes and `git apply` to re-apply; do NOT use `git stash`, the stash is shared between worktrees),
  - demo.py    : a small standalone program that exits 0 on the unchanged tree and exits non-zero (assertion failure) with the change applied, demonstrating the property violation through the public API,
  - notes.md   : 5-10 lines: what the change is, exactly which inputs/sequences trigger it, why the existing tests do not notice.
Verify all of it yourself: for each change, on a clean tree apply patch.diff, run the full test suite (must pass), run demo.py (must fail); then `git checkout -- .`, run demo.py (must pass).

PART B - hunt for GENUINE DEFECTS: inputs, call sequences or options on which the UNCHANGED tree already violates the statement above (read literally, clause by clause; only what the statement or the docs/ pages promise - not general robustness wishes). The git log shows many earlier 'fix:' commits; those are repaired, look elsewhere: clauses of the statement nobody seems to have exercised, combinations of two features, less common types and spellings, error paths followed by further use. For each defect you can demonstrate write {O}/hunt/<n>.py : a standalone reproducer that exits non-zero on the unchanged tree and prints what was expected versus what was observed, with a comment on top naming the clause of the statement it violates and (if you see one) the smallest repair. Also write {O}/hunt/REPORT.md with one paragraph per defect. Quality over quantity: do not list behaviour outside the statement. If you find none after a serious search, say so.

Leave the worktree clean (git checkout -- . ; no untracked files) when you finish.
In your final message, list for each change: files touched, trigger, the test-suite result and demo results you observed; then one line per hunted defect.""")
