#!/venv/bin/python
"""mkmut.py <name> <relative file under /repo> <old> <new>  -> writes /verif/mutants/<name>.patch (unified diff vs /repo working tree)"""
import sys, difflib, os
name, rel, old, new = sys.argv[1:5]
src = open(os.path.join('/repo', rel)).read()
old = old.encode().decode('unicode_escape'); new = new.encode().decode('unicode_escape')
if src.count(old) != 1:
    sys.exit(f"old text occurs {src.count(old)} times in {rel}")
dst = src.replace(old, new)
d = difflib.unified_diff(src.splitlines(True), dst.splitlines(True), 'a/' + rel, 'b/' + rel)
open(f'/verif/mutants/{name}.patch', 'w').write(''.join(d))
print('wrote', name)
