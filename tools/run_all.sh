#!/bin/bash
# tools/run_all.sh [tier] [seed...]  — run every claimed check, one summary line each
TIER="${1:-quick}"; shift
SEEDS="${*:-1}"
cd "$(dirname "$0")/.."
for S in $SEEDS; do
for ID in $(/venv/bin/python -c "import json; print(' '.join(c['property_id'] for c in json.load(open('MANIFEST.json'))['checks']))"); do
  t0=$(date +%s)
  out=$(VERIF_SEED=$S ./check $ID --tier $TIER 2>&1); rc=$?
  t1=$(date +%s)
  echo "seed=$S $ID exit=$rc $((t1-t0))s $(echo "$out" | grep -E "^\[$ID" | sed 's/evidence=.*//') $(echo "$out" | grep -c KNOWN-FINDING) known"
  if [ $rc -ne 0 ]; then echo "$out" | grep -E "VIOLATION|HARNESS|violation kind|detail" | head -6 | cut -c1-300; fi
done; done
