#!/venv/bin/python
"""Print the prompt given to a fresh sub-agent for property <ID> (only the property text + its worktree)."""
import json, sys
pid = sys.argv[1]
p = [json.loads(l) for l in open('/verif/properties.jsonl') if json.loads(l)['id'] == pid][0]
print(f"""You are helping to evaluate a test-adequacy study on the open-source Python package scinumtools (pure Python: expression solver, physical units/quantities, materials calculator, DIP parameter-file parser).

You have your own scratch git worktree of the repository at /tmp/wt/{pid} (detached HEAD). Work ONLY inside /tmp/wt/{pid} and /tmp/seed_out/{pid}. Never touch /repo or /verif, never read anything under /verif.
The package is installed in /venv in editable mode pointing at another checkout, so ALWAYS run python as:
    cd /tmp/wt/{pid} && PYTHONPATH=/tmp/wt/{pid}/src /venv/bin/python ...
and the existing test suite as:
    cd /tmp/wt/{pid} && PYTHONPATH=/tmp/wt/{pid}/src /venv/bin/python -m pytest -q -p no:cacheprovider -x
(218 tests, ~15 s; all pass on the unchanged tree. There is no network.)

Here is a semantic property that the package is supposed to satisfy:

  Title: {p['title']}
  Statement: {p['statement']}
  Quantified over: {p['quantifier']['text']}
  Relevant source files: {', '.join(p['anchors']['files'])}

YOUR TASK: produce THREE different, independent, realistic source changes (the kind of regression a maintainer could plausibly introduce during a refactor, optimisation or "small fix"), each of which
  (a) BREAKS the property above (for some inputs / histories the stated behaviour no longer holds),
  (b) still imports fine and still passes the ENTIRE existing test suite unchanged (run it!),
  (c) needs something SPECIFIC to manifest: an unusual input, a particular multi-step sequence of operations, a boundary value, a specific combination of options, or two cooperating code sites that each look fine alone. It must NOT be something ordinary use would expose at once (e.g. do not break every call).
The three changes should touch different mechanisms / code sites where possible and differ in what is needed to trigger them. Do not add comments in the code that reveal the change is deliberate. Do not edit tests.

For each change k in 1,2,3 write into /tmp/seed_out/{pid}/k/ :
  - patch.diff : `git diff` of ONLY that change against the unchanged HEAD (so apply each change alone on a clean tree: use `git checkout -- .` between changes and `git apply` to re-apply; do NOT use `git stash`, the stash is shared between worktrees),
  - demo.py    : a small standalone program that exits 0 on the unchanged tree and exits non-zero (assertion failure) with the change applied, demonstrating the property violation through the public API,
  - notes.md   : 5-10 lines: what the change is, exactly which inputs/sequences trigger it, why the existing tests do not notice.
Verify all of it yourself: for each change, on a clean tree apply patch.diff, run the full test suite (must pass), run demo.py (must fail); then `git checkout -- .`, run demo.py (must pass). Leave the worktree clean (git checkout -- . ; no untracked files) when you finish.
In your final message, list for each change: files touched, trigger, and confirm test-suite result and demo results you observed.""")
