#!/bin/bash
# tools/mutants_all.sh — run every mutants/<ID>-*.patch against the quick check of <ID>; writes mutants/RESULTS.md
cd "$(dirname "$0")/.."
run_one() { p="$1"; id=$(basename $p | cut -d- -f1); r=$(tools/mutant.sh $p $id 2>&1 | grep -E "^(CAUGHT|MISSED|PATCH-FAILED)" | head -1); echo "| $(basename $p .patch) | $(echo $r | cut -d' ' -f1) | $(echo "$r" | sed -n 's/.*violation kind=//p') |"; }
export -f run_one
{ echo "| mutant | result | violation kind |"; echo "|---|---|---|"; ls mutants/*.patch | sort | xargs -P 3 -I{} bash -c 'run_one {}' | sort; } > mutants/RESULTS.md
grep -c CAUGHT mutants/RESULTS.md; grep -E "MISSED|PATCH-FAILED" mutants/RESULTS.md
