#!/bin/bash
# tools/confirm_seed.sh <ID> <k> [check ids...]  — confirm a sub-agent's seeded change in a scratch worktree of /repo HEAD,
# run the listed checks (default: <ID>) against it, and store it as /verif/seeded/<ID>-<k>/ with meta.json.
set -u
ID="$1"; K="$2"; shift 2
CHECKS="${*:-$ID}"
SRC="${SEED_ROOT:-/tmp/seed_out}/$ID/$K"
TAG="${SEED_TAG:-}"
W="$(mktemp -d /tmp/svseed.XXXXXX)"
cleanup() { git -C /repo worktree remove --force "$W/wt" >/dev/null 2>&1; rm -rf "$W"; }
trap cleanup EXIT
git -C /repo worktree add -q --detach "$W/wt" HEAD || exit 2
cd "$W/wt"
run_demo() { ( cd "$W/wt" && PYTHONPATH="$W/wt/src" timeout 300 /venv/bin/python "$SRC/demo.py" >/dev/null 2>&1 ); echo $?; }
DEMO_CLEAN=$(run_demo)
if ! git apply "$SRC/patch.diff" 2>/dev/null; then
  patch -p1 -s < "$SRC/patch.diff" || { echo "APPLY-FAILED $ID-$K"; exit 2; }
fi
git diff > "$W/patch.diff"
TESTS=$(PYTHONPATH="$W/wt/src" /venv/bin/python -m pytest -q -p no:cacheprovider 2>&1 | tail -1)
DEMO_PATCHED=$(run_demo)
RES=""
for C in $CHECKS; do
  out="$(cd /verif && SV_SRC="$W/wt/src" SV_OUT="$W/out" SV_NO_SHRINK=1 ./check "$C" --tier quick 2>&1)"; code=$?
  kind="$(echo "$out" | grep -m1 'violation kind' | sed 's/.*kind=//')"
  RES="$RES{\"check\":\"$C\",\"exit\":$code,\"kind\":\"$kind\"},"
  echo "  check $C exit=$code kind=$kind"
done
echo "$ID-$K tests: $TESTS | demo clean=$DEMO_CLEAN patched=$DEMO_PATCHED"
case "$TESTS" in *failed*|*error*) echo "REJECTED $ID-$K (test suite fails)"; exit 1;; esac
if [ "$DEMO_CLEAN" != 0 ] || [ "$DEMO_PATCHED" = 0 ]; then echo "REJECTED $ID-$K (demo does not discriminate)"; exit 1; fi
D="/verif/seeded/$ID-$TAG$K"; mkdir -p "$D"
cp "$W/patch.diff" "$D/patch.diff"; cp "$SRC/demo.py" "$D/demo.py"; cp "$SRC/notes.md" "$D/notes.md" 2>/dev/null
/venv/bin/python - "$D" "$ID" "$K" "$TESTS" "$DEMO_CLEAN" "$DEMO_PATCHED" "[${RES%,}]" <<'PY'
import json, sys, subprocess
d, pid, k, tests, dc, dp, res = sys.argv[1:8]
notes = open(d + '/notes.md').read() if __import__('os').path.exists(d + '/notes.md') else ''
import os
meta = {"property": pid, "seed": os.path.basename(d), "origin": "fresh sub-agent given only the property text and a scratch worktree",
        "needs_to_manifest": notes.strip()[:1500],
        "confirmed": {"repo_head": subprocess.check_output(['git', '-C', '/repo', 'rev-parse', '--short', 'HEAD']).decode().strip(),
                      "pytest_with_change": tests, "demo_exit_unchanged": int(dc), "demo_exit_with_change": int(dp),
                      "ran": "tools/confirm_seed.sh (scratch worktree of /repo HEAD, git apply, pytest, demo.py, ./check --tier quick with SV_SRC)"},
        "checks": json.loads(res)}
json.dump(meta, open(d + '/meta.json', 'w'), indent=1)
PY
echo "KEPT $ID-$TAG$K"
