#!/bin/bash
# tools/rebase_seeds.sh — after fix commits in /repo some kept seeded changes no longer apply to HEAD. For each such
# seeded/<id>/patch.diff try a three-way merge in a scratch worktree of /repo HEAD; on success the re-based diff replaces
# patch.diff (the original is kept once as patch.orig.diff). Prints what could not be merged automatically.
cd "$(dirname "$0")/.."
W="$(mktemp -d /tmp/svrebase.XXXXXX)"
trap 'git -C /repo worktree remove --force "$W/wt" >/dev/null 2>&1; rm -rf "$W"' EXIT
git -C /repo worktree add -q --detach "$W/wt" HEAD || exit 2
for d in seeded/C*-*/; do
  id=$(basename "$d"); p="$PWD/$d/patch.diff"
  [ -f "$p" ] || continue
  ( cd "$W/wt" && git checkout -q -- . && git clean -qfd )
  if ( cd "$W/wt" && git apply --check "$p" 2>/dev/null ); then continue; fi
  if ( cd "$W/wt" && git apply --3way "$p" >/dev/null 2>&1 && ! git diff --name-only --diff-filter=U | grep -q . && ! grep -rl '^<<<<<<< ' src >/dev/null 2>&1 ); then
    [ -f "$d/patch.orig.diff" ] || cp "$p" "$d/patch.orig.diff"
    ( cd "$W/wt" && git diff HEAD ) > "$p"
    echo "REBASED $id"
  elif ( cd "$W/wt" && git reset -q --hard HEAD && patch -p1 -s --no-backup-if-mismatch -F3 < "$p" >/dev/null 2>&1 && ! find . -name '*.rej' | grep -q . ); then
    [ -f "$d/patch.orig.diff" ] || cp "$p" "$d/patch.orig.diff"
    ( cd "$W/wt" && find . -name '*.orig' -delete; git diff HEAD ) > "$p"
    echo "REBASED(fuzz) $id"
  else
    ( cd "$W/wt" && find . -name '*.rej' -delete; find . -name '*.orig' -delete )
    echo "MANUAL  $id"
  fi
  ( cd "$W/wt" && git reset -q --hard HEAD )
done
