#!/bin/bash
# tools/seed_matrix.sh [IDs...] — re-run every kept seeded change (seeded/<ID>-<k>/patch.diff) against its property's
# quick check on a scratch copy of /repo's working tree; prints one line per change and writes seeded/MATRIX.md
cd "$(dirname "$0")/.."
OUT=seeded/MATRIX.md
echo "| seeded change | needs | check | result | violation kind |" > $OUT.tmp
echo "|---|---|---|---|---|" >> $OUT.tmp
run_one() {
  d="$1"; id=$(basename $d); prop=${id%-*}
  res=$(MUT_TIER=quick tools/mutant.sh $d/patch.diff $prop 2>&1 | grep -E "^(CAUGHT|MISSED|PATCH-FAILED)" | head -1)
  kind=$(echo "$res" | sed -n 's/.*violation kind=//p')
  st=$(echo "$res" | cut -d' ' -f1)
  need=$(/venv/bin/python -c "import json,sys; m=json.load(open('$d/meta.json')); print(m['needs_to_manifest'].splitlines()[0][:110].replace('|','/'))" 2>/dev/null)
  echo "| $id | $need | $prop | $st | $kind |"
}
export -f run_one
ls -d seeded/C*-* | sort -V | xargs -P 4 -I{} bash -c 'run_one {}' | sort -V >> $OUT.tmp
mv $OUT.tmp $OUT
grep -c CAUGHT $OUT; grep -E "MISSED|PATCH-FAILED" $OUT
