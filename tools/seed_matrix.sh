#!/bin/bash
# tools/seed_matrix.sh [IDs...] — re-run every kept seeded change (seeded/<ID>-<k>/patch.diff) against its property's
# quick check on a scratch copy of /repo's working tree; prints one line per change and writes seeded/MATRIX.md
cd "$(dirname "$0")/.."
OUT=${MATRIX_OUT:-seeded/MATRIX.md}
echo "Quick tier, VERIF_SEED=${VERIF_SEED:-1}, against /repo HEAD $(git -C /repo rev-parse --short HEAD) with each change applied to a scratch copy." > $OUT.tmp; echo >> $OUT.tmp
echo "| seeded change | needs | check | result | violation kind |" >> $OUT.tmp
echo "|---|---|---|---|---|" >> $OUT.tmp
run_one() {
  d="$1"; id=$(basename $d); prop=${id:0:3}
  # the property's own check first, then any other check recorded as catching it when the change was confirmed
  others=$(/venv/bin/python -c "import json; m=json.load(open('$d/meta.json')); print(' '.join(c['check'] for c in m.get('checks',[]) if c['check']!='$prop' and c.get('exit')==1))" 2>/dev/null)
  neutral=$(/venv/bin/python -c "import json; m=json.load(open('$d/meta.json')); print(m.get('neutralised_by',{}).get('commit',''))" 2>/dev/null)
  if [ -n "$neutral" ]; then
    need=$(/venv/bin/python -c "import json,sys; m=json.load(open('$d/meta.json')); print(m['needs_to_manifest'].splitlines()[0][:110].replace('|','/'))" 2>/dev/null)
    echo "| $id | $need | $prop | NEUTRALISED by fix $neutral (no longer breaks the property; see meta.json) |  |"; return
  fi
  for chk in $prop $others; do
    res=$(MUT_TIER=quick tools/mutant.sh $d/patch.diff $chk 2>&1 | grep -E "^(CAUGHT|MISSED|PATCH-FAILED)" | head -1)
    case "$res" in CAUGHT*) prop=$chk; break;; esac
  done
  kind=$(echo "$res" | sed -n 's/.*violation kind=//p')
  st=$(echo "$res" | cut -d' ' -f1)
  need=$(/venv/bin/python -c "import json,sys; m=json.load(open('$d/meta.json')); print(m['needs_to_manifest'].splitlines()[0][:110].replace('|','/'))" 2>/dev/null)
  echo "| $id | $need | $prop | $st | $kind |"
}
export -f run_one
ls -d seeded/C*-* | sort -V | xargs -P 4 -I{} bash -c 'run_one {}' | sort -V >> $OUT.tmp
mv $OUT.tmp $OUT
grep -c CAUGHT $OUT; grep -E "MISSED|PATCH-FAILED" $OUT
