#!/venv/bin/python
"""Regenerate MANIFEST.json from the table below (claimed = a sv/props module exists and is listed here)."""
import json, os, glob
V = os.path.dirname(os.path.dirname(os.path.abspath(__file__)))
TECH = {
 "C01": "Hypothesis grammar-based generation of expression ASTs vs an independent stratified evaluator; blank-insertion metamorphic relation; single-edit ill-formed mutants must raise",
 "C02": "Hypothesis model-based history generation (solve sequences with injected failures at chosen token positions) vs a fresh-instance differential oracle",
 "C03": "Hypothesis grammar-based unit-expression generation vs an independent table lexer with exact Fraction dimension algebra; parse/render round-trip; exhaustive single-atom rejection sweep",
 "C04": "Hypothesis generation of same-dimension unit triples and magnitudes vs closed-form factor oracle; round-trip and via-intermediate metamorphic relations; cross-dimension rejection",
 "C05": "complete enumeration of temperature/logarithmic unit pairs x Hypothesis-drawn magnitudes vs formulas written from the definitions; inverse round-trip; level-sum identity",
 "C06": "Hypothesis generation of operand pairs/operators/exponents vs base-dimension arithmetic oracle from an independent unit-table reference",
 "C07": "Hypothesis histories (operation incl. aliased/derived operands and augmented assignments + follow-up in-place calls) with before/after operand snapshots (aliasing/mutation invariant)",
 "C08": "Hypothesis generation of magnitudes with/without uncertainty vs per-clause closed-form propagation oracle",
 "C09": "Hypothesis stateful op-sequence generation (open/close in and out of LIFO order/raise/DIP parse with failing registrations/solver use) vs a stack-of-symbol-sets model of the global unit tables",
 "C10": "Hypothesis grammar-based formula generation vs independent Counter expansion and per-species data from the isotope table",
 "C11": "Hypothesis generation of mixtures vs closed-form fraction oracle; scaling and number<->mass round-trip metamorphic relations",
 "C12": "Hypothesis generation of composites with densities/volumes in random units vs closed-form relations; unit-change metamorphic relation",
 "C13": "Hypothesis generation of DIP line lists (indent, kind, literal) vs an independent indentation-stack reference; blank/comment/indent-scaling metamorphic relation",
 "C14": "Hypothesis generation of definition+modification sequences vs a last-write-wins model with independent unit factors; invalid programs must raise",
 "C15": "Hypothesis generation of nested @case programs vs a reference block interpreter",
 "C16": "Hypothesis generation of constrained nodes with values on/near/off the boundary; truth known by construction; accept/reject oracle",
 "C17": "Hypothesis generation of source trees and injection/import sequences vs a replayed model environment; base environment immutability",
 "C18": "Hypothesis grammar-based generation of numerical/logical/template expressions vs independent unit-aware evaluator",
 "C19": "Hypothesis generation of environments exported through every back-end and read back by that format's own loader/interpreter/compiler (round-trip differential)",
 "C20": "Hypothesis model-based operation histories vs dict/list/row models; complete enumeration of small grid sizes; nested-loop product oracle",
}
FUZZED = {"C01", "C03", "C10", "C13", "C15", "C16", "C17", "C18"}
FUZZ_NOTE = ("; plus coverage-guided units (atheris/libFuzzer mutating Hypothesis' choice sequence through fuzz_one_input, "
             "same strategy and oracle, branch coverage of scinumtools as feedback)")
NOT_APPLICABLE = {}
NA_FILE = os.path.join(V, "tools", "not_applicable.json")
if os.path.exists(NA_FILE):
    NOT_APPLICABLE = json.load(open(NA_FILE))
props = [json.loads(l) for l in open(os.path.join(V, "properties.jsonl"))]
mods = {os.path.basename(p)[:3].upper() for p in glob.glob(os.path.join(V, "sv/props/c*_*.py"))}
checks, na = [], []
for p in props:
    i = p["id"]
    if i in mods and i not in NOT_APPLICABLE:
        checks.append({
            "property_id": i,
            "quick_cmd": f"./check {i} --tier quick",
            "thorough_cmd": f"./check {i} --tier thorough",
            "evidence_file": f"/verif/evidence/{i}.json",
            "replay_cmd_template": f"./check {i} --replay {{path}}",
            "engine": "sv",
            "level_claimed": {"category": "exploration",
                              "text": "Generated-input search against an explicit oracle; finite sub-domains enumerated completely where stated in the evidence rule. Establishes that no violation exists among the cases explored (counts and class histogram in the evidence), never absence.",
                              "design_ref": f"DESIGN.md §3 {i}"},
            "level_note": "Trusted: Hypothesis 6.168, CPython/numpy primitives, the reference model in sv/ (written from the property text and the docs, not from the code under test). Known findings listed in known_findings.json are excluded by input+behaviour predicates.",
            "technique": TECH[i] + (FUZZ_NOTE if i in FUZZED else ""),
        })
    else:
        na.append({"property_id": i, "reason": NOT_APPLICABLE.get(i, "check not built yet in this round (planned, see DESIGN.md §3)")})
man = {
 "version": 1,
 "setup_cmd": "/venv/bin/python -c 'import hypothesis' 2>/dev/null || /venv/bin/pip install --no-index --find-links /opt/veriftools/wheels hypothesis",
 "hooks": {"guard": "VRTULKA23_SCINUMTOOLS_VERIF", "enable": "no hooks are needed: checks import /repo/src directly (PYTHONPATH) in a fresh interpreter",
           "baseline_off_cmd": "cd /repo && /venv/bin/python -m pytest -ra -q -p no:cacheprovider --timeout=900 --continue-on-collection-errors",
           "source_commits": [], "add_only": True},
 "engines": [{"name": "sv", "path": "/verif/sv", "serves_properties": [c["property_id"] for c in checks],
              "kind_free_text": "Hypothesis-driven property-based testing harness (8/16-way sharded), coverage-guided units via atheris (sv/fuzz.py), corpus replay tier, known-findings matching"}],
 "checks": checks,
 "not_applicable": na,
 "notes": "See DESIGN.md. ./check <ID> --tier quick|thorough; ./check <ID> --replay FILE. Exit 0/1/2 = held / violation / harness error.",
}
json.dump(man, open(os.path.join(V, "MANIFEST.json"), "w"), indent=1)
print("claimed:", [c["property_id"] for c in checks])
