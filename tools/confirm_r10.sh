#!/bin/bash
# tools/confirm_r10.sh <ID> [extra check ids...] — confirm the two round-10 changes of one sub-agent
ID="$1"; shift
for k in 1 2; do SEED_ROOT=/tmp/seed_out SEED_TAG="r10-" "$(dirname "$0")/confirm_seed.sh" "$ID" $k "$ID" "$@" 2>&1 | grep -v "^$\|conda" | tail -$((3 + $#)); done
