#!/bin/bash
# tools/confirm_round.sh <round-tag> <seed-root> <ID> [extra check ids...] — confirm the three changes of one sub-agent
TAG="$1"; ROOT="$2"; ID="$3"; shift 3
for k in 1 2 3; do SEED_ROOT="$ROOT" SEED_TAG="$TAG-" "$(dirname "$0")/confirm_seed.sh" "$ID" $k "$ID" "$@" 2>&1 | grep -v "^$" | tail -$((3 + $#)); done
